package c20

import (
	"encoding/json"
	"fmt"
	"os"
	"path/filepath"
	"sort"
	"strings"
	"sync"

	"github.com/blevesearch/bleve/v2"

	"verifharness/ev"
	"verifharness/rng"
)

// c20.go drives the monitor:
//
//	phase 0  committed witnesses (regressions and known findings), replayed first
//	phase 1  many small corpora (random schema with one array / sibling arrays / two levels,
//	         write history with updates and deletes, one in-memory segment per batch); per corpus
//	         ~two dozen query trees, each run against the nested mapping (scorch) and against the
//	         same schema without nesting (scorch and upsidedown) and compared with model.go
//	phase 2  disk indexes: after every batch, after ForceMerge, after Close/Open and after one more
//	         batch: DocCount, match-all, DocIDQuery over the whole id space and a few queries
//
// A failing case is shrunk (shrink.go) and its class is computed from the shrunk query: which clause
// kinds address which arrays. Only boolean must_not / should-min / filter and disjunction min>=2
// whose clauses address more than one path get the "...@other-path" classes of the known finding.
func init() { ev.Register("C20", "exploration", run) }

const shrinkBudget = 600

type monitor struct {
	r *ev.Run

	mu      sync.Mutex
	shrinks map[string]int // per unshrunk class, only for queries without id-compared compounds over several paths
}

const maxShrinksPerClass = 25

// report shrinks a failing case, classifies it syntactically and hands it to the framework.
func (m *monitor) report(c *Case, first Outcome, origin string) {
	r := m.r
	r.Count("failing_cases_before_shrinking", 1)
	if c.Mode != ModeNested || len(riskyKinds(c.Schema, c.Query)) == 0 {
		// nothing about such a query is a known finding: every failure is reported; when one defect
		// floods the run only the first few are shrunk, the rest are reported as they are
		pre := Classify(c, first)
		m.mu.Lock()
		m.shrinks[pre]++
		n := m.shrinks[pre]
		m.mu.Unlock()
		if n > maxShrinksPerClass {
			r.Count("failing_cases_reported_unshrunk", 1)
			w := c.Witness(first)
			w["origin"] = origin
			r.Violation("unshrunk/"+pre, fmt.Sprintf("%s: query %s expected %v observed %v %s", c.Mode,
				mustJSON(BuildQuery(c.Query)), first.Expected, first.Observed.IDs, first.Err), w)
			return
		}
	}
	small := Shrink(c, shrinkBudget)
	o := small.Run()
	if o.Wrong == "" { // cannot happen (Shrink only keeps failing cases) unless the failure is not reproducible in memory
		small, o = c, first
	}
	class := Classify(small, o)
	w := small.Witness(o)
	w["origin"] = origin
	w["unshrunk_query"] = mustJSON(BuildQuery(c.Query))
	r.Violation(class, fmt.Sprintf("%s: query %s expected %v observed %v (total %d, DocCount %d) %s",
		small.Mode, mustJSON(BuildQuery(small.Query)), o.Expected, o.Observed.IDs, o.Observed.Total, o.DocCount, o.Err), w)
}

func caseKey(c *Case) string {
	b, _ := json.Marshal(c)
	return string(b)
}

func run(r *ev.Run) {
	r.Rule = "case = (schema with arrays of objects, write history, query tree, engine/mapping mode) evaluated once; " +
		"distinct = different JSON of that tuple; non-trivial = the query has a compound joined inside an array " +
		"(conjunction / must list / min>=2) and some live parent has two different elements of that array each satisfying " +
		"a different clause (the case nesting exists for); for counting checkpoints: some parent that had elements was " +
		"deleted or replaced before the checkpoint"
	r.Assumptions = []string{
		"nested mappings are exercised on scorch with the default segment format (zap v17), the only one that stores the parent/child edges; upsidedown and scorch both serve the un-nested control",
		"every query names its field (the composite _all field is not part of the property); mappings are static, fields are not stored",
		"documents hold arrays (possibly arrays of arrays) under array keys; a single object in place of an array is outside the quantifier",
		"expected semantics of compounds: decided at the innermost array containing everything they address (DESIGN.md model.Nested); match-all and a boolean with only must_not clauses address whole documents",
		"ids never contain \"_$\"; element documents are never addressed by id",
		"mixed-path boolean filter is only replayed from the committed witness, never drawn at random (coordinator decision)",
	}
	m := &monitor{r: r, shrinks: map[string]int{}}

	m.replayCommitted()
	m.phaseSearch()
	m.phaseHistory()

	// floors a healthy quick run exceeds comfortably (measured ≈ 3x the floor)
	r.MinDistinct = r.Scale(9000, 60000)
}

// ---------------------------------------------------------------------------
// phase 0: committed witnesses

func (m *monitor) replayCommitted() {
	r := m.r
	for _, w := range committedWitnesses() {
		r.Journal(map[string]any{"replay": w.Name})
		o := w.Case.Run()
		r.Case("witness:"+caseKey(w.Case), crossElement(w.Case.Schema, w.Case.History.Live(), w.Case.Query))
		r.Count("committed_witnesses_replayed", 1)
		if o.Wrong == "" {
			continue
		}
		class := Classify(w.Case, o)
		if class != w.Class {
			r.Count("committed_witnesses_failing_in_another_class", 1)
		}
		r.Count("committed_witnesses_failing", 1)
		wit := w.Case.Witness(o)
		wit["origin"] = "committed witness: " + w.Name
		r.Violation(class, fmt.Sprintf("%s: query %s expected %v observed %v", w.Name,
			mustJSON(BuildQuery(w.Case.Query)), o.Expected, o.Observed.IDs), wit)
	}
}

// ---------------------------------------------------------------------------
// phase 1: search semantics over many small corpora

func parallel(n, workers int, f func(i int)) {
	var wg sync.WaitGroup
	ch := make(chan int)
	for w := 0; w < workers; w++ {
		wg.Add(1)
		go func() {
			defer wg.Done()
			for i := range ch {
				f(i)
			}
		}()
	}
	for i := 0; i < n; i++ {
		ch <- i
	}
	close(ch)
	wg.Wait()
}

func schemaShape(s *Schema) string {
	lv2, sib := false, len(s.Arrays) > 1
	for _, a := range s.Arrays {
		if len(a.Sub) > 0 {
			lv2 = true
		}
		if len(a.Sub) > 1 {
			sib = true
		}
	}
	switch {
	case lv2 && sib:
		return "two-levels+siblings"
	case lv2:
		return "two-levels"
	case sib:
		return "sibling-arrays"
	}
	return "one-array"
}

func (m *monitor) phaseSearch() {
	r := m.r
	nCorpora := r.Scale(3000, 9000)
	nQueries := r.Scale(22, 40)
	parallel(nCorpora, 16, func(i int) {
		g := r.Rng(fmt.Sprintf("search-%d", i))
		m.oneCorpus(i, g, nQueries)
	})
}

func (m *monitor) oneCorpus(i int, g *rng.Rand, nQueries int) {
	r := m.r
	s := GenSchema(g, i%3 == 0)
	var h History
	for try := 0; try < 5; try++ {
		h = GenHistory(g, s, g.Range(4, 9), g.Range(1, 4), 5)
		if len(h.Live()) >= 2 {
			break
		}
	}
	live := h.Live()
	r.Count("corpora", 1)
	r.Count("schema:"+schemaShape(s), 1)
	if h.staleElements(s) {
		r.Count("corpora_with_replaced_or_deleted_parents", 1)
	}
	for _, d := range live {
		root := s.Parse(d, true)
		n := 0
		root.walk(func(*MNode) { n++ })
		r.Count("live_elements", n-1)
		r.Count("live_parents", 1)
		if n == 1 {
			r.Count("live_parents_without_elements", 1)
		}
	}
	modes := []string{ModeNested, ModeFlatSc}
	if i%2 == 0 {
		modes = append(modes, ModeFlatUpsd)
	}
	idx := map[string]bleve.Index{}
	defer func() {
		for _, x := range idx {
			_ = x.Close()
		}
	}()
	r.Journal(map[string]any{"phase": "search", "corpus": i, "schema": s, "history": h})
	for _, mode := range modes {
		x, err := newMemIndex(s, mode)
		if err != nil {
			r.Violation("index-create-error:"+mode, err.Error(), map[string]any{"schema": s})
			return
		}
		idx[mode] = x
		for _, b := range h {
			if err := applyBatch(x, b); err != nil {
				r.Violation("batch-error:"+mode, err.Error(), map[string]any{"schema": s, "history": h})
				return
			}
		}
		dc, err := x.DocCount()
		r.Count("doccount_checks", 1)
		if err != nil || dc != uint64(len(live)) {
			c := &Case{Schema: s, History: h, Query: &Q{Kind: "all"}, Mode: mode, Req: fullReq}
			m.report(c, c.Run(), fmt.Sprintf("DocCount %d, live parents %d (corpus %d)", dc, len(live), i))
		}
	}
	free := newQGen(g.Fork(), s, live, false)
	exposed := newQGen(g.Fork(), s, live, true)
	// directed shapes come after the drawn ones and from their own stream, so that the drawn cases of a
	// seed do not depend on them
	directed := newQGen(r.Rng(fmt.Sprintf("search-%d-directed", i)), s, live, false)
	nDirected := 6
	for k := 0; k < nQueries+nDirected; k++ {
		var q *Q
		switch {
		case k >= nQueries:
			if q = directed.crossLevelAsClause(); q == nil {
				continue
			}
			r.Count("directed:nested_conjunction_as_clause", 1)
		case k == 0:
			q = &Q{Kind: "all"}
		case k == 1:
			ids := []string{docID(41)}
			for n := 0; n < 10; n++ {
				ids = append(ids, docID(n))
			}
			q = &Q{Kind: "ids", IDs: ids}
		case k%3 == 2:
			q = exposed.gen(g.Range(1, 3), nil)
		default:
			q = free.gen(g.Range(1, 3), nil)
		}
		family := "single-path-or-nesting-aware"
		if len(riskyKinds(s, q)) > 0 {
			family = "id-compared-compound-over-several-paths"
		}
		r.Count("queries:"+family, 1)
		r.Count("query_root:"+q.Kind, 1)
		nontrivial := crossElement(s, live, q)
		expN := Expected(s, live, q, true)
		expF := Expected(s, live, q, false)
		if nontrivial {
			r.Count("cases_cross_element", 1)
		}
		if strings.Join(expN, ",") != strings.Join(expF, ",") {
			r.Count("cases_where_nesting_changes_the_answer", 1)
		}
		if len(expN) > 0 {
			r.Count("cases_expecting_hits", 1)
		}
		for _, mode := range modes {
			req := fullReq
			req.SortByID = g.Bool()
			if g.Chance(1, 5) {
				req = ReqOpt{Size: g.Range(1, 3), From: g.Intn(3), SortByID: true}
				switch g.Intn(3) {
				case 1:
					req.From, req.After = 0, docID(g.Intn(12))
				case 2:
					req.From, req.Before = 0, docID(g.Intn(12))
				}
				r.Count("paged_requests", 1)
			}
			c := &Case{Schema: s, History: h, Query: q, Mode: mode, Req: req}
			exp := expF
			if mode == ModeNested {
				exp = expN
			}
			r.Journal(map[string]any{"corpus": i, "mode": mode, "query": q, "req": req})
			var got Result
			var err error
			panicked, val, stack := ev.Guard(func() { got, err = search(idx[mode], q, req) })
			r.Case(caseKey(c), nontrivial)
			r.Count("searches:"+mode, 1)
			wrong, errText := "", ""
			switch {
			case panicked:
				wrong, errText = "error", fmt.Sprint("panic: ", val, "\n", stack)
			case err != nil:
				wrong, errText = "error", err.Error()
			default:
				wrong = checkResult(exp, got, req)
			}
			if k < 6 && i < 2 && mode == ModeNested {
				r.Sample(map[string]any{"arrays": s.Prefixes(), "documents": live, "query": mustJSON(BuildQuery(q)),
					"expected": exp, "observed": got, "cross_element": nontrivial})
			}
			if wrong != "" {
				m.report(c, Outcome{Expected: exp, Observed: got, Wrong: wrong, Err: errText, DocCount: uint64(len(live))},
					fmt.Sprintf("corpus %d query %d: %s %s", i, k, wrong, errText))
			}
		}
	}
}

// ---------------------------------------------------------------------------
// phase 2: counting and element bookkeeping across segments, merges and reopen (disk index)

func (m *monitor) phaseHistory() {
	r := m.r
	n := r.Scale(300, 2000)
	base := r.TempDir()
	parallel(n, 48, func(i int) { // fsync-bound, not CPU-bound
		g := r.Rng(fmt.Sprintf("history-%d", i))
		m.oneHistory(i, g, filepath.Join(base, fmt.Sprintf("h%d", i)))
	})
}

func (m *monitor) oneHistory(i int, g *rng.Rand, dir string) {
	r := m.r
	defer os.RemoveAll(dir)
	s := GenSchema(g, false)
	nIDs := g.Range(5, 12)
	h := GenHistory(g, s, nIDs, g.Range(3, 7), 6)
	r.Journal(map[string]any{"phase": "history", "n": i, "schema": s, "history": h})
	idx, err := bleve.New(dir, BuildMapping(s, true))
	if err != nil {
		r.Violation("index-create-error:disk", err.Error(), map[string]any{"schema": s})
		return
	}
	defer func() {
		if idx != nil {
			_ = idx.Close()
		}
	}()
	var sofar History
	check := func(at string) {
		live := sofar.Live()
		var ids []string
		for id := range live {
			ids = append(ids, id)
		}
		sort.Strings(ids)
		stale := sofar.staleElements(s)
		r.Case(fmt.Sprintf("count:%s:%s", at, caseKey(&Case{Schema: s, History: sofar})), stale)
		r.Count("checkpoints:"+strings.SplitN(at, "#", 2)[0], 1)
		if stale {
			r.Count("checkpoints_after_parent_with_elements_deleted_or_replaced", 1)
		}
		fail := func(kind string, q *Q, exp []string, got any) {
			c := &Case{Schema: s, History: sofar, Query: q, Mode: ModeNested, Req: ReqOpt{Size: 1000, SortByID: true}}
			if o := c.Run(); o.Wrong != "" { // layout independent: shrink it like any other case
				m.report(c, o, fmt.Sprintf("history %d at %s: %s", i, at, kind))
				return
			}
			w := c.Witness(Outcome{Expected: exp})
			w["observed_on_disk"] = got
			w["at"] = at
			r.Violation("layout:"+kind+"@"+strings.SplitN(at, "#", 2)[0],
				fmt.Sprintf("history %d at %s: %s expected %v observed %v (the same history in one in-memory index per batch agrees)", i, at, kind, exp, got), w)
		}
		dc, err := idx.DocCount()
		r.Count("doccount_checks", 1)
		if err != nil || dc != uint64(len(live)) {
			fail("doccount", &Q{Kind: "all"}, ids, dc)
		}
		var qs []*Q
		qs = append(qs, &Q{Kind: "all"})
		all := []string{docID(40), docID(41)}
		for n := 0; n < 12; n++ {
			all = append(all, docID(n))
		}
		qs = append(qs, &Q{Kind: "ids", IDs: all})
		qg := newQGen(g.Fork(), s, live, false)
		for n := 0; n < 3; n++ {
			qs = append(qs, qg.gen(g.Range(0, 2), nil))
		}
		for _, q := range qs {
			exp := Expected(s, live, q, true)
			req := ReqOpt{Size: 1000, SortByID: true}
			var got Result
			var err error
			panicked, val, _ := ev.Guard(func() { got, err = search(idx, q, req) })
			r.Count("searches:nested/disk", 1)
			r.Evals(1)
			wrong := ""
			switch {
			case panicked:
				wrong = fmt.Sprint("panic: ", val)
			case err != nil:
				wrong = "error: " + err.Error()
			default:
				wrong = checkResult(exp, got, req)
			}
			if wrong != "" {
				fail(q.Kind+":"+strings.SplitN(wrong, "\n", 2)[0], q, exp, got)
			}
		}
	}
	maxSeg := uint64(0)
	for bi, b := range h {
		if err := applyBatch(idx, b); err != nil {
			r.Violation("batch-error:disk", err.Error(), map[string]any{"schema": s, "history": h})
			return
		}
		sofar = append(sofar, b)
		for _, op := range b {
			if op.Doc == nil {
				r.Count("history_deletes", 1)
			} else {
				r.Count("history_index_ops", 1)
			}
		}
		check(fmt.Sprintf("after-batch#%d", bi))
		if n := scorchStat(idx, "num_root_filesegments") + scorchStat(idx, "num_root_memorysegments"); n > maxSeg {
			maxSeg = n
		}
	}
	if maxSeg >= 2 {
		r.Count("histories_with_several_segments", 1)
	}
	before := scorchStat(idx, "num_root_filesegments") + scorchStat(idx, "num_root_memorysegments")
	if err := forceMerge(idx); err != nil {
		r.Inconclusive("force-merge error: " + err.Error())
	} else {
		after := scorchStat(idx, "num_root_filesegments") + scorchStat(idx, "num_root_memorysegments")
		if after < before {
			r.Count("force_merges_that_reduced_segments", 1)
		}
		check("after-merge")
	}
	if err := idx.Close(); err != nil {
		r.Violation("close-error", err.Error(), map[string]any{"schema": s, "history": h})
		idx = nil
		return
	}
	idx, err = bleve.Open(dir)
	if err != nil {
		idx = nil
		r.Violation("reopen-error", err.Error(), map[string]any{"schema": s, "history": h})
		return
	}
	r.Count("reopens", 1)
	check("after-reopen")
	extra := GenHistory(g, s, nIDs, 1, 5)
	if err := applyBatch(idx, extra[0]); err != nil {
		r.Violation("batch-error:disk", err.Error(), map[string]any{"schema": s, "history": h})
		return
	}
	sofar = append(sofar, extra[0])
	check("after-reopen-batch")
}
