package main

import (
	_ "verifharness/c20"
	"verifharness/ev"
)

func main() { ev.Main() }
