package c20

import (
	"fmt"
	"sort"
	"strings"

	"verifharness/rng"
)

// ---------------------------------------------------------------------------
// vocabulary (small, so terms collide across fields and elements)

var words = []string{"ada", "bob", "cy", "dee", "eve", "fay", "gus"}

func genText(g *rng.Rand) string {
	if g.Chance(1, 4) {
		return rng.Pick(g, words) + " " + rng.Pick(g, words)
	}
	return rng.Pick(g, words)
}

func genValue(g *rng.Rand, f FieldSpec) any {
	switch f.Kind {
	case "num":
		return float64(g.Range(1, 6))
	default:
		if g.Chance(1, 10) { // multi-valued leaf
			return []any{genText(g), genText(g)}
		}
		return genText(g)
	}
}

// ---------------------------------------------------------------------------
// schemas

var fieldNames = []string{"name", "role", "city", "tag", "kind"}

func genFields(g *rng.Rand, n int) []FieldSpec {
	perm := g.Perm(len(fieldNames))
	var out []FieldSpec
	for i := 0; i < n; i++ {
		k := "text"
		switch g.Intn(8) {
		case 0:
			k = "kw"
		case 1:
			k = "num"
		}
		out = append(out, FieldSpec{Name: fieldNames[perm[i]], Kind: k})
	}
	// make sure at least two text/kw fields exist so that cross-field conjunctions are possible
	cnt := 0
	for _, f := range out {
		if f.Kind != "num" {
			cnt++
		}
	}
	for i := range out {
		if cnt >= 2 {
			break
		}
		if out[i].Kind == "num" {
			out[i].Kind = "text"
			cnt++
		}
	}
	return out
}

// GenSchema draws one of: one array, two sibling arrays, two levels, hybrid.
// clash makes one array name a string prefix of a sibling key (loc / locs, emp / emps / empx).
func GenSchema(g *rng.Rand, clash bool) *Schema {
	s := &Schema{}
	if g.Chance(3, 10) {
		s.Wrap = "co"
	}
	s.Top = genFields(g, g.Range(1, 2))
	names := []string{"emps", "locs", "projs"}
	if clash {
		switch g.Intn(3) {
		case 0:
			names = []string{"loc", "locs", "projs"}
		case 1:
			names = []string{"emp", "emps", "loc"}
		default:
			// a top-level field whose key starts with an array name
			names = []string{"loc", "projs", "emps"}
			s.Top = append(s.Top, FieldSpec{Name: "locale", Kind: "text"})
		}
	} else {
		rng.Shuffle(g, names)
	}
	mk := func(name string) *ArrSpec {
		a := &ArrSpec{Name: name, Fields: genFields(g, g.Range(2, 3))}
		if g.Chance(1, 6) {
			a.Obj = &ObjSpec{Name: "info", Fields: []FieldSpec{{Name: "zip", Kind: "text"}}}
		}
		return a
	}
	switch g.Intn(4) {
	case 0: // one array
		s.Arrays = []*ArrSpec{mk(names[0])}
		if clash && len(s.Top) < 3 {
			s.Arrays = append(s.Arrays, mk(names[1]))
		}
	case 1: // two siblings
		s.Arrays = []*ArrSpec{mk(names[0]), mk(names[1])}
	case 2: // two levels
		d := mk("depts")
		sub := mk(names[0])
		d.Sub = []*ArrSpec{sub}
		if clash || g.Bool() {
			d.Sub = append(d.Sub, mk(names[1]))
		}
		s.Arrays = []*ArrSpec{d}
	default: // hybrid: two levels + sibling
		d := mk("depts")
		d.Sub = []*ArrSpec{mk(names[0]), mk(names[1])}
		s.Arrays = []*ArrSpec{d, mk(names[2])}
	}
	return s
}

// ---------------------------------------------------------------------------
// documents

func genElem(g *rng.Rand, a *ArrSpec, depth int) map[string]any {
	el := map[string]any{}
	for _, f := range a.Fields {
		if g.Chance(9, 10) {
			el[f.Name] = genValue(g, f)
		}
	}
	if a.Obj != nil && g.Chance(3, 4) {
		o := map[string]any{}
		for _, f := range a.Obj.Fields {
			o[f.Name] = genValue(g, f)
		}
		el[a.Obj.Name] = o
	}
	for _, sub := range a.Sub {
		if v, ok := genArray(g, sub, depth+1); ok {
			el[sub.Name] = v
		}
	}
	return el
}

func genArray(g *rng.Rand, a *ArrSpec, depth int) (any, bool) {
	var n int
	switch g.Intn(10) {
	case 0:
		return nil, false // key absent
	case 1:
		n = 0 // empty array
	case 2, 3:
		n = 1
	case 4, 5, 6:
		n = 2
	case 7, 8:
		n = 3
	default:
		n = 4
	}
	if depth > 0 && n > 3 {
		n = 3
	}
	arr := []any{}
	for i := 0; i < n; i++ {
		arr = append(arr, genElem(g, a, depth))
		if g.Chance(1, 12) { // non-object elements are not elements
			switch g.Intn(3) {
			case 0:
				arr = append(arr, rng.Pick(g, words))
			case 1:
				arr = append(arr, float64(g.Range(1, 6)))
			default:
				arr = append(arr, nil)
			}
		}
	}
	if len(arr) >= 2 && g.Chance(1, 16) { // array of arrays of objects: still one element per object
		k := g.Range(1, len(arr)-1)
		arr = []any{arr[:k:k], arr[k:]}
	}
	return arr, true
}

func GenDoc(g *rng.Rand, s *Schema) map[string]any {
	body := map[string]any{}
	for _, f := range s.Top {
		if g.Chance(9, 10) {
			body[f.Name] = genValue(g, f)
		}
	}
	for _, a := range s.Arrays {
		if v, ok := genArray(g, a, 0); ok {
			body[a.Name] = v
		}
	}
	if s.Wrap != "" {
		return map[string]any{s.Wrap: body}
	}
	return body
}

// ---------------------------------------------------------------------------
// histories

type Op struct {
	ID  string         `json:"id"`
	Doc map[string]any `json:"doc,omitempty"` // nil = delete
}

type History [][]Op // batches

func docID(i int) string { return fmt.Sprintf("d%02d", i) }

// Live replays a history: last write wins.
func (h History) Live() map[string]map[string]any {
	live := map[string]map[string]any{}
	for _, b := range h {
		for _, op := range b {
			if op.Doc == nil {
				delete(live, op.ID)
			} else {
				live[op.ID] = op.Doc
			}
		}
	}
	return live
}

// staleElements reports whether some parent that had elements was deleted or replaced.
func (h History) staleElements(s *Schema) bool {
	seen := map[string]bool{}
	for _, b := range h {
		for _, op := range b {
			if seen[op.ID] {
				return true
			}
			if op.Doc != nil && len(s.Parse(op.Doc, true).Kids) > 0 {
				seen[op.ID] = true
			}
		}
	}
	return false
}

// GenHistory: nIDs ids, nBatches batches, mixture of index / re-index / delete / delete-absent.
func GenHistory(g *rng.Rand, s *Schema, nIDs, nBatches, maxOps int) History {
	var h History
	for b := 0; b < nBatches; b++ {
		n := g.Range(1, maxOps)
		var ops []Op
		for i := 0; i < n; i++ {
			id := docID(g.Intn(nIDs))
			if g.Chance(1, 5) {
				ops = append(ops, Op{ID: id})
			} else {
				ops = append(ops, Op{ID: id, Doc: GenDoc(g, s)})
			}
		}
		h = append(h, ops)
	}
	return h
}

// ---------------------------------------------------------------------------
// queries

type qgen struct {
	g       *rng.Rand
	s       *Schema
	fields  []FieldInfo
	byPref  map[string][]FieldInfo
	prefs   []string // "" first, then arrays
	live    map[string]map[string]any
	ids     []string
	roots   map[string]*MNode
	exposed bool // allow compounds known not to be nesting-aware to span several arrays
}

func newQGen(g *rng.Rand, s *Schema, live map[string]map[string]any, exposed bool) *qgen {
	qg := &qgen{g: g, s: s, fields: s.Fields(), byPref: map[string][]FieldInfo{}, live: live,
		roots: map[string]*MNode{}, exposed: exposed}
	for _, f := range qg.fields {
		qg.byPref[f.Prefix] = append(qg.byPref[f.Prefix], f)
	}
	qg.prefs = []string{""}
	var ps []string
	for p := range s.Prefixes() {
		ps = append(ps, p)
	}
	sort.Strings(ps)
	qg.prefs = append(qg.prefs, ps...)
	for id, d := range live {
		qg.ids = append(qg.ids, id)
		qg.roots[id] = s.Parse(d, true)
	}
	sort.Strings(qg.ids)
	return qg
}

// leafFrom builds a leaf that the given node satisfies (if it holds anything).
func (qg *qgen) leafFrom(m *MNode) *Q {
	g := qg.g
	type cand struct {
		f string
		t string
		n *float64
	}
	var cs []cand
	var fs []string
	for f := range m.Terms {
		fs = append(fs, f)
	}
	sort.Strings(fs)
	for _, f := range fs {
		var ts []string
		for t := range m.Terms[f] {
			ts = append(ts, t)
		}
		sort.Strings(ts)
		for _, t := range ts {
			cs = append(cs, cand{f: f, t: t})
		}
	}
	fs = fs[:0]
	for f := range m.Nums {
		fs = append(fs, f)
	}
	sort.Strings(fs)
	for _, f := range fs {
		for _, v := range m.Nums[f] {
			v := v
			cs = append(cs, cand{f: f, n: &v})
		}
	}
	if len(cs) == 0 {
		return nil
	}
	c := rng.Pick(g, cs)
	if c.n != nil {
		lo, hi := *c.n-float64(g.Intn(2)), *c.n+1+float64(g.Intn(2))
		q := &Q{Kind: "num", Field: c.f}
		if g.Chance(4, 5) {
			q.Lo = &lo
		}
		if g.Chance(4, 5) || q.Lo == nil {
			q.Hi = &hi
		}
		return q
	}
	fi, _ := qg.s.fieldInfo(c.f)
	if fi.Kind == "kw" || g.Chance(2, 3) {
		return &Q{Kind: "term", Field: c.f, Text: c.t}
	}
	q := &Q{Kind: "match", Field: c.f, Text: c.t}
	if g.Chance(1, 2) { // a second word; "and" needs both in the same value set of one node
		q.Text += " " + rng.Pick(g, words)
		q.And = g.Chance(1, 3)
	}
	return q
}

func (qg *qgen) randomLeaf(pref string) *Q {
	g := qg.g
	fs := qg.byPref[pref]
	if len(fs) == 0 {
		return &Q{Kind: "ids", IDs: []string{docID(0)}}
	}
	f := rng.Pick(g, fs)
	if f.Kind == "num" {
		lo := float64(g.Range(1, 6))
		hi := lo + float64(g.Range(1, 3))
		return &Q{Kind: "num", Field: f.Path, Lo: &lo, Hi: &hi}
	}
	return &Q{Kind: "term", Field: f.Path, Text: rng.Pick(g, words)}
}

// leaf draws a leaf addressing array pin (nil = any).
func (qg *qgen) leaf(pin *string) *Q {
	g := qg.g
	pref := ""
	if pin != nil {
		pref = *pin
	} else {
		pref = rng.Pick(g, qg.prefs)
		if pref == "" && g.Chance(1, 2) && len(qg.prefs) > 1 {
			pref = qg.prefs[1+g.Intn(len(qg.prefs)-1)]
		}
	}
	if pref == "" {
		switch g.Intn(12) {
		case 0:
			if pin == nil { // match-all is about whole documents, never drawn below a pin
				return &Q{Kind: "all"}
			}
		case 1:
			var ids []string
			for i := 0; i < g.Range(1, 4); i++ {
				if len(qg.ids) > 0 && g.Chance(3, 4) {
					ids = append(ids, rng.Pick(g, qg.ids))
				} else {
					ids = append(ids, docID(40+g.Intn(5)))
				}
			}
			return &Q{Kind: "ids", IDs: ids}
		}
	}
	if len(qg.ids) > 0 && g.Chance(5, 6) {
		// a leaf some live element satisfies
		for try := 0; try < 4; try++ {
			root := qg.roots[rng.Pick(g, qg.ids)]
			nodes := nodesAt(root, pref)
			if len(nodes) == 0 {
				continue
			}
			if q := qg.leafFrom(rng.Pick(g, nodes)); q != nil {
				return q
			}
		}
	}
	return qg.randomLeaf(pref)
}

// sameArrayClauses draws k leaves over one array from elements of one parent,
// preferring different elements for different clauses (the case nesting exists for).
func (qg *qgen) sameArrayClauses(pref string, k int) []*Q {
	g := qg.g
	var out []*Q
	if len(qg.ids) > 0 {
		for try := 0; try < 6 && out == nil; try++ {
			root := qg.roots[rng.Pick(g, qg.ids)]
			nodes := nodesAt(root, pref)
			if len(nodes) < 2 && try < 5 {
				continue
			}
			if len(nodes) == 0 {
				continue
			}
			same := g.Chance(2, 5)
			first := g.Intn(len(nodes))
			for i := 0; i < k; i++ {
				idx := first
				if !same {
					idx = (first + i) % len(nodes)
				}
				q := qg.leafFrom(nodes[idx])
				if q == nil {
					q = qg.randomLeaf(pref)
				}
				out = append(out, q)
			}
		}
	}
	for len(out) < k {
		out = append(out, qg.randomLeaf(pref))
	}
	return out
}

func (qg *qgen) arrayPref() string {
	if len(qg.prefs) == 1 {
		return ""
	}
	return qg.prefs[1+qg.g.Intn(len(qg.prefs)-1)]
}

// gen draws a query tree. pin != nil restricts every leaf below to the array *pin.
func (qg *qgen) gen(depth int, pin *string) *Q {
	g := qg.g
	if depth <= 0 || g.Chance(1, 5) {
		return qg.leaf(pin)
	}
	kids := func(k int, p *string) []*Q {
		var out []*Q
		for i := 0; i < k; i++ {
			out = append(out, qg.gen(depth-1, p))
		}
		return out
	}
	switch g.Intn(10) {
	case 0, 1, 2, 3: // conjunction
		k := g.Range(2, 3)
		if pin == nil && g.Chance(1, 2) {
			p := qg.arrayPref()
			if g.Chance(2, 3) {
				return &Q{Kind: "conj", Kids: qg.sameArrayClauses(p, k)}
			}
			return &Q{Kind: "conj", Kids: kids(k, &p)}
		}
		if pin != nil && g.Chance(1, 2) {
			return &Q{Kind: "conj", Kids: qg.sameArrayClauses(*pin, k)}
		}
		return &Q{Kind: "conj", Kids: kids(k, pin)}
	case 4, 5: // disjunction
		k := g.Range(2, 3)
		min := g.Intn(2)
		p := pin
		if g.Chance(3, 10) {
			min = 2
			if p == nil && !qg.exposed {
				x := rng.Pick(g, qg.prefs)
				p = &x
			}
			if p != nil && g.Chance(1, 2) {
				return &Q{Kind: "disj", Min: min, Kids: qg.sameArrayClauses(*p, k)}
			}
		}
		if min >= 2 && p == nil && qg.exposed {
			qg.exposed = false
			defer func() { qg.exposed = true }()
		}
		return &Q{Kind: "disj", Min: min, Kids: kids(k, p)}
	default: // boolean
		nm, ns, nn := g.Intn(3), g.Intn(3), 0
		if g.Chance(2, 5) {
			nn = 1
		}
		hasFilter := g.Chance(1, 5)
		if nm+ns+nn == 0 && !hasFilter {
			nm = 1
		}
		min := 0
		if ns > 0 {
			min = g.Intn(ns + 1)
		}
		others := nm + ns + nn
		// shapes that bleve decides by comparing element ids (not nesting-aware)
		risky := nn > 0 || (ns > 0 && (min >= 2 || (min >= 1 && nm > 0))) || (hasFilter && others > 0)
		p := pin
		if nm+ns == 0 && nn > 0 && !hasFilter && (!qg.exposed || p != nil) {
			nm = 1 // "everything except ..." is only drawn in the exposed family, never below a pin
		}
		if risky && p == nil && (!qg.exposed || hasFilter) {
			x := rng.Pick(g, qg.prefs)
			p = &x
		}
		if risky && p == nil {
			// exposed family: one id-compared feature per node, and nothing id-compared over several
			// paths below it, so that a shrunk failure names exactly one clause kind
			shouldRisky := ns > 0 && (min >= 2 || (min >= 1 && nm > 0))
			if nn > 0 && shouldRisky {
				if g.Bool() {
					nn = 0
				} else {
					min = 0
				}
			}
			qg.exposed = false
			defer func() { qg.exposed = true }()
		}
		q := &Q{Kind: "bool", Min: min}
		if p != nil && nm >= 2 && g.Chance(1, 2) {
			q.Must = qg.sameArrayClauses(*p, nm)
		} else {
			q.Must = kids(nm, p)
		}
		q.Should = kids(ns, p)
		q.MustNot = kids(nn, p)
		if hasFilter {
			q.Filter = qg.gen(depth-1, p)
		}
		return q
	}
}

// crossLevelAsClause draws the shape in which a nested conjunction has to be *advanced* by an
// enclosing query: an inner conjunction whose clauses address different arrays / levels of one
// live parent (deeper clauses listed first, taken from different elements where possible), used
// as a clause of an outer conjunction whose other clause is a leaf of the same parent. The parent
// satisfies every leaf that was taken from it, so it has to be reported whenever the other
// parents of the corpus make the outer searcher skip forward over the inner one.
func (qg *qgen) crossLevelAsClause() *Q {
	g := qg.g
	if len(qg.ids) == 0 || len(qg.prefs) < 2 {
		return nil
	}
	for try := 0; try < 6; try++ {
		root := qg.roots[rng.Pick(g, qg.ids)]
		var elems []*MNode
		root.walk(func(m *MNode) {
			if m != root {
				elems = append(elems, m)
			}
		})
		if len(elems) == 0 {
			continue
		}
		// walk() is document order: prefer a late element for the first (deepest) clause and an
		// early one for the later clauses
		k := g.Range(1, 3)
		var picked []*MNode
		for i := 0; i < k; i++ {
			var m *MNode
			if i == 0 {
				m = elems[len(elems)-1-g.Intn((len(elems)+1)/2)]
			} else {
				m = elems[g.Intn((len(elems)+1)/2)]
			}
			picked = append(picked, m)
		}
		depth := func(m *MNode) int { return strings.Count(m.Prefix, ".") }
		if g.Chance(4, 5) {
			sort.SliceStable(picked, func(a, b int) bool { return depth(picked[a]) > depth(picked[b]) })
		}
		var inner []*Q
		for _, m := range picked {
			if q := qg.leafFrom(m); q != nil {
				inner = append(inner, q)
			}
		}
		top := qg.leafFrom(root)
		if top != nil && (len(inner) < 2 || g.Chance(2, 3)) {
			inner = append(inner, top)
		}
		if len(inner) < 2 {
			continue
		}
		other := qg.leafFrom(root)
		if other == nil || g.Chance(1, 4) {
			other = qg.leaf(nil)
		}
		in := &Q{Kind: "conj", Kids: inner}
		if g.Chance(1, 4) {
			return &Q{Kind: "conj", Kids: []*Q{other, in}}
		}
		return &Q{Kind: "conj", Kids: []*Q{in, other}}
	}
	return nil
}
