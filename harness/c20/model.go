// Package c20 is the runtime monitor of property C20: nested-object search
// respects object boundaries and returns each parent once.
//
// model.go is the oracle: a declarative tree model of documents and queries that
// shares nothing with bleve's mapping walker, searchers or collectors.
package c20

import (
	"encoding/json"
	"sort"
	"strings"
)

// ---------------------------------------------------------------------------
// schema: which keys are leaf fields, which are arrays of objects

type FieldSpec struct {
	Name string `json:"name"`
	Kind string `json:"kind"` // "text" (lower-cased words), "kw" (whole value), "num"
}

type ObjSpec struct {
	Name   string      `json:"name"`
	Fields []FieldSpec `json:"fields"`
}

// ArrSpec is an array of objects. Under the nested mapping every object element
// is an element node of its own; under the flat mapping it is folded into the parent.
type ArrSpec struct {
	Name   string      `json:"name"`
	Fields []FieldSpec `json:"fields"`
	Obj    *ObjSpec    `json:"obj,omitempty"` // plain sub-object inside each element
	Sub    []*ArrSpec  `json:"sub,omitempty"` // second nesting level
}

type Schema struct {
	Wrap   string      `json:"wrap,omitempty"` // plain wrapper object around everything ("" = none)
	Top    []FieldSpec `json:"top"`
	Arrays []*ArrSpec  `json:"arrays"`
}

// FieldInfo is a leaf field with its full path and the array it lives in.
type FieldInfo struct {
	Path   string
	Kind   string
	Prefix string // full path of the innermost array of objects containing it ("" = parent document)
}

func join(a, b string) string {
	if a == "" {
		return b
	}
	return a + "." + b
}

// Fields lists every leaf field of the schema.
func (s *Schema) Fields() []FieldInfo {
	var out []FieldInfo
	base := s.Wrap
	for _, f := range s.Top {
		out = append(out, FieldInfo{join(base, f.Name), f.Kind, ""})
	}
	var walk func(a *ArrSpec, parent string)
	walk = func(a *ArrSpec, parent string) {
		p := join(parent, a.Name)
		for _, f := range a.Fields {
			out = append(out, FieldInfo{join(p, f.Name), f.Kind, p})
		}
		if a.Obj != nil {
			for _, f := range a.Obj.Fields {
				out = append(out, FieldInfo{join(join(p, a.Obj.Name), f.Name), f.Kind, p})
			}
		}
		for _, sub := range a.Sub {
			walk(sub, p)
		}
	}
	for _, a := range s.Arrays {
		walk(a, base)
	}
	return out
}

// Prefixes returns the full path of every array of objects, with its nesting level (1, 2).
func (s *Schema) Prefixes() map[string]int {
	out := map[string]int{}
	var walk func(a *ArrSpec, parent string, lvl int)
	walk = func(a *ArrSpec, parent string, lvl int) {
		p := join(parent, a.Name)
		out[p] = lvl
		for _, sub := range a.Sub {
			walk(sub, p, lvl+1)
		}
	}
	for _, a := range s.Arrays {
		walk(a, s.Wrap, 1)
	}
	return out
}

// parentPrefix returns the enclosing array path of an array path ("" for first-level arrays).
func (s *Schema) parentPrefix(p string) string {
	best := ""
	for q := range s.Prefixes() {
		if q != p && strings.HasPrefix(p, q+".") && len(q) > len(best) {
			best = q
		}
	}
	return best
}

func (s *Schema) fieldInfo(path string) (FieldInfo, bool) {
	for _, f := range s.Fields() {
		if f.Path == path {
			return f, true
		}
	}
	return FieldInfo{}, false
}

// ---------------------------------------------------------------------------
// documents as trees of element nodes

type MNode struct {
	Prefix string                     // array path this node is an element of ("" = the parent document)
	Terms  map[string]map[string]bool // field path -> analysed terms held by this very node
	Nums   map[string][]float64
	Kids   []*MNode
}

func newNode(prefix string) *MNode {
	return &MNode{Prefix: prefix, Terms: map[string]map[string]bool{}, Nums: map[string][]float64{}}
}

func tokens(kind, v string) []string {
	switch kind {
	case "kw":
		if v == "" {
			return nil
		}
		return []string{v}
	default:
		return strings.Fields(strings.ToLower(v))
	}
}

func (n *MNode) addLeaf(path, kind string, v any) {
	switch x := v.(type) {
	case string:
		if kind == "num" {
			return
		}
		for _, t := range tokens(kind, x) {
			if n.Terms[path] == nil {
				n.Terms[path] = map[string]bool{}
			}
			n.Terms[path][t] = true
		}
	case float64:
		if kind == "num" {
			n.Nums[path] = append(n.Nums[path], x)
		}
	case []any:
		for _, e := range x {
			n.addLeaf(path, kind, e)
		}
	}
}

func flattenElems(v any, out []map[string]any) []map[string]any {
	switch x := v.(type) {
	case map[string]any:
		out = append(out, x)
	case []any:
		for _, e := range x {
			out = flattenElems(e, out)
		}
	}
	return out
}

// Parse reads a raw JSON-like document under the schema. nested=true makes every
// object element of a declared array a node of its own; nested=false folds all
// leaves into the single parent node (the un-nested mapping).
func (s *Schema) Parse(doc map[string]any, nested bool) *MNode {
	root := newNode("")
	body := doc
	if s.Wrap != "" {
		w, ok := doc[s.Wrap].(map[string]any)
		if !ok {
			return root
		}
		body = w
	}
	for _, f := range s.Top {
		if v, ok := body[f.Name]; ok {
			root.addLeaf(join(s.Wrap, f.Name), f.Kind, v)
		}
	}
	var walkArr func(a *ArrSpec, parentPath string, holder map[string]any, into *MNode)
	walkArr = func(a *ArrSpec, parentPath string, holder map[string]any, into *MNode) {
		raw, ok := holder[a.Name]
		if !ok {
			return
		}
		arr, isArr := raw.([]any)
		if !isArr {
			return // generator never puts a non-array here
		}
		p := join(parentPath, a.Name)
		for _, el := range flattenElems(arr, nil) {
			node := into
			if nested {
				node = newNode(p)
				into.Kids = append(into.Kids, node)
			}
			for _, f := range a.Fields {
				if v, ok := el[f.Name]; ok {
					node.addLeaf(join(p, f.Name), f.Kind, v)
				}
			}
			if a.Obj != nil {
				if o, ok := el[a.Obj.Name].(map[string]any); ok {
					for _, f := range a.Obj.Fields {
						if v, ok := o[f.Name]; ok {
							node.addLeaf(join(join(p, a.Obj.Name), f.Name), f.Kind, v)
						}
					}
				}
			}
			for _, sub := range a.Sub {
				walkArr(sub, p, el, node)
			}
		}
	}
	for _, a := range s.Arrays {
		walkArr(a, s.Wrap, body, root)
	}
	return root
}

func (n *MNode) walk(f func(*MNode)) {
	f(n)
	for _, k := range n.Kids {
		k.walk(f)
	}
}

// ---------------------------------------------------------------------------
// queries

type Q struct {
	Kind string `json:"kind"` // term match num all ids conj disj bool

	Field string   `json:"field,omitempty"`
	Text  string   `json:"text,omitempty"` // term / match text
	And   bool     `json:"and,omitempty"`  // match operator
	Lo    *float64 `json:"lo,omitempty"`   // num: lo <= v
	Hi    *float64 `json:"hi,omitempty"`   // num: v < hi
	IDs   []string `json:"ids,omitempty"`

	Kids []*Q `json:"kids,omitempty"` // conj / disj
	Min  int  `json:"min,omitempty"`  // disj min; bool: should min

	Must    []*Q `json:"must,omitempty"`
	Should  []*Q `json:"should,omitempty"`
	MustNot []*Q `json:"must_not,omitempty"`
	Filter  *Q   `json:"filter,omitempty"`
}

func (q *Q) isLeaf() bool {
	switch q.Kind {
	case "conj", "disj", "bool":
		return false
	}
	return true
}

func (q *Q) clone() *Q {
	b, _ := json.Marshal(q)
	var c Q
	_ = json.Unmarshal(b, &c)
	return &c
}

func (q *Q) children() []*Q {
	var out []*Q
	out = append(out, q.Kids...)
	out = append(out, q.Must...)
	out = append(out, q.Should...)
	out = append(out, q.MustNot...)
	if q.Filter != nil {
		out = append(out, q.Filter)
	}
	return out
}

func (q *Q) size() int {
	n := 1
	for _, c := range q.children() {
		n += c.size()
	}
	return n
}

// leafPrefix is the array a leaf addresses: "" for fields of the parent document,
// match-all and doc-id leaves.
func (s *Schema) leafPrefix(q *Q) string {
	switch q.Kind {
	case "all", "ids":
		return ""
	}
	if fi, ok := s.fieldInfo(q.Field); ok {
		return fi.Prefix
	}
	return ""
}

// addressed collects the set of arrays addressed below q ("" = the parent document itself).
// match-all is about whole documents: it addresses the parent and every array; so does a
// boolean that has nothing but must_not clauses ("everything except ...").
func (s *Schema) addressed(q *Q, into map[string]bool) {
	everything := func() {
		into[""] = true
		for p := range s.Prefixes() {
			into[p] = true
		}
	}
	if q.isLeaf() {
		if q.Kind == "all" {
			everything()
			return
		}
		into[s.leafPrefix(q)] = true
		return
	}
	if q.Kind == "bool" && len(q.Must) == 0 && len(q.Should) == 0 && q.Filter == nil {
		everything()
	}
	for _, c := range q.children() {
		s.addressed(c, into)
	}
}

func (s *Schema) addressedList(q *Q) []string {
	m := map[string]bool{}
	s.addressed(q, m)
	var out []string
	for p := range m {
		out = append(out, p)
	}
	sort.Strings(out)
	return out
}

// ancestorsOrSelf lists p, its enclosing array, ..., "".
func (s *Schema) ancestorsOrSelf(p string) []string {
	out := []string{p}
	for p != "" {
		p = s.parentPrefix(p)
		out = append(out, p)
	}
	return out
}

// joinPrefix is the innermost array that contains every array addressed below q
// ("" when they only meet at the parent document).
func (s *Schema) joinPrefix(q *Q) string {
	ps := s.addressedList(q)
	if len(ps) == 0 {
		return ""
	}
	cands := s.ancestorsOrSelf(ps[0]) // innermost first
	for _, c := range cands {
		ok := true
		for _, p := range ps[1:] {
			found := false
			for _, a := range s.ancestorsOrSelf(p) {
				if a == c {
					found = true
					break
				}
			}
			if !found {
				ok = false
				break
			}
		}
		if ok {
			return c
		}
	}
	return ""
}

// Eval decides queries over one parsed document.
type Eval struct {
	S    *Schema
	ID   string // id of the parent document
	Root *MNode
}

func leafAt(q *Q, m *MNode) bool {
	switch q.Kind {
	case "term":
		return m.Terms[q.Field][q.Text]
	case "match":
		return false // handled by caller (needs field kind)
	case "num":
		for _, v := range m.Nums[q.Field] {
			if (q.Lo == nil || *q.Lo <= v) && (q.Hi == nil || v < *q.Hi) {
				return true
			}
		}
	}
	return false
}

func (e *Eval) leafHoldsAtNode(q *Q, m *MNode) bool {
	switch q.Kind {
	case "all":
		return true
	case "ids":
		if m != e.Root {
			return false
		}
		for _, id := range q.IDs {
			if id == e.ID {
				return true
			}
		}
		return false
	case "match":
		fi, ok := e.S.fieldInfo(q.Field)
		if !ok {
			return false
		}
		toks := tokens(fi.Kind, q.Text)
		if len(toks) == 0 {
			return false
		}
		have := m.Terms[q.Field]
		if q.And {
			for _, t := range toks {
				if !have[t] {
					return false
				}
			}
			return true
		}
		for _, t := range toks {
			if have[t] {
				return true
			}
		}
		return false
	}
	return leafAt(q, m)
}

// nodesAt returns the nodes of the subtree of n that are elements of array p (p=="" : n itself if it is the root).
func nodesAt(n *MNode, p string) []*MNode {
	var out []*MNode
	n.walk(func(m *MNode) {
		if m.Prefix == p {
			out = append(out, m)
		}
	})
	return out
}

// Holds: does q hold in the subtree of node n?
//   - a leaf holds iff some node of the subtree holds the term/value itself;
//   - a compound query is decided at the nodes of its join array (the innermost array
//     containing everything it addresses): a conjunction needs one such node in whose
//     subtree every conjunct holds, a disjunction with min>=2 one such node in whose subtree
//     at least min disjuncts hold, a boolean one such node in whose subtree all must, at
//     least min should, no must_not clause and the filter hold;
//   - a disjunction with min<=1 holds iff some disjunct holds.
func (e *Eval) Holds(q *Q, n *MNode) bool {
	if q.isLeaf() {
		found := false
		n.walk(func(m *MNode) {
			if !found && e.leafHoldsAtNode(q, m) {
				found = true
			}
		})
		return found
	}
	switch q.Kind {
	case "disj":
		if q.Min <= 1 {
			for _, c := range q.Kids {
				if e.Holds(c, n) {
					return true
				}
			}
			return false
		}
		for _, m := range nodesAt(n, e.S.joinPrefix(q)) {
			cnt := 0
			for _, c := range q.Kids {
				if e.Holds(c, m) {
					cnt++
				}
			}
			if cnt >= q.Min {
				return true
			}
		}
		return false
	case "conj":
		for _, m := range nodesAt(n, e.S.joinPrefix(q)) {
			all := true
			for _, c := range q.Kids {
				if !e.Holds(c, m) {
					all = false
					break
				}
			}
			if all {
				return true
			}
		}
		return false
	case "bool":
		for _, m := range nodesAt(n, e.S.joinPrefix(q)) {
			if e.boolAt(q, m) {
				return true
			}
		}
		return false
	}
	return false
}

// boolAt decides a boolean at one node of its join array. As in the query API, the must list
// is a conjunction of its own, the should list a disjunction with a minimum, the must_not list
// a disjunction; each of them is decided inside the subtree of m with its own join array.
func (e *Eval) boolAt(q *Q, m *MNode) bool {
	if len(q.Must) > 0 && !e.Holds(&Q{Kind: "conj", Kids: q.Must}, m) {
		return false
	}
	if len(q.Should) > 0 {
		need := q.Min
		if len(q.Must) == 0 && need < 1 {
			need = 1 // without must clauses the should clauses select the candidates
		}
		if need > 0 && !e.Holds(&Q{Kind: "disj", Kids: q.Should, Min: need}, m) {
			return false
		}
	}
	for _, c := range q.MustNot {
		if e.Holds(c, m) {
			return false
		}
	}
	if q.Filter != nil && !e.Holds(q.Filter, m) {
		return false
	}
	return true
}

// Expected returns the sorted ids of the parents in which q holds.
func Expected(s *Schema, docs map[string]map[string]any, q *Q, nested bool) []string {
	var out []string
	for id, d := range docs {
		e := &Eval{S: s, ID: id, Root: s.Parse(d, nested)}
		if nested {
			if e.Holds(q, e.Root) {
				out = append(out, id)
			}
		} else if e.flat(q) {
			out = append(out, id)
		}
	}
	sort.Strings(out)
	return out
}

// flat is the plain per-document meaning (un-nested mapping): every leaf looks at
// all values of the document, compounds are ordinary boolean algebra.
func (e *Eval) flat(q *Q) bool {
	switch q.Kind {
	case "conj":
		for _, c := range q.Kids {
			if !e.flat(c) {
				return false
			}
		}
		return true
	case "disj":
		cnt := 0
		for _, c := range q.Kids {
			if e.flat(c) {
				cnt++
			}
		}
		need := q.Min
		if need < 1 {
			need = 1
		}
		return cnt >= need
	case "bool":
		for _, c := range q.Must {
			if !e.flat(c) {
				return false
			}
		}
		if len(q.Should) > 0 {
			need := q.Min
			if len(q.Must) == 0 && need < 1 {
				need = 1
			}
			cnt := 0
			for _, c := range q.Should {
				if e.flat(c) {
					cnt++
				}
			}
			if cnt < need {
				return false
			}
		}
		for _, c := range q.MustNot {
			if e.flat(c) {
				return false
			}
		}
		if q.Filter != nil && !e.flat(q.Filter) {
			return false
		}
		return true
	}
	return e.leafHoldsAtNode(q, e.Root)
}

// crossElement reports whether the case is the one nesting exists for: a compound
// query joined inside an array (conjunction, must list, ...) for which some parent has
// two different elements of that array, each satisfying a different clause.
func crossElement(s *Schema, docs map[string]map[string]any, q *Q) bool {
	var comps []*Q
	var collect func(x *Q)
	collect = func(x *Q) {
		if !x.isLeaf() {
			comps = append(comps, x)
		}
		for _, c := range x.children() {
			collect(c)
		}
	}
	collect(q)
	type group struct {
		clauses []*Q
		join    string
	}
	var groups []group
	for _, c := range comps {
		switch c.Kind {
		case "conj":
			groups = append(groups, group{c.Kids, s.joinPrefix(c)})
		case "disj":
			if c.Min >= 2 {
				groups = append(groups, group{c.Kids, s.joinPrefix(c)})
			}
		case "bool":
			if len(c.Must) >= 2 {
				groups = append(groups, group{c.Must, s.joinPrefix(&Q{Kind: "conj", Kids: c.Must})})
			}
			if len(c.Should) >= 2 && c.Min >= 2 {
				groups = append(groups, group{c.Should, s.joinPrefix(&Q{Kind: "disj", Kids: c.Should, Min: c.Min})})
			}
			var parts []*Q
			if len(c.Must) > 0 {
				parts = append(parts, &Q{Kind: "conj", Kids: c.Must})
			}
			if len(c.Should) > 0 && (c.Min >= 1 || len(c.Must) == 0) {
				parts = append(parts, &Q{Kind: "disj", Kids: c.Should, Min: c.Min})
			}
			if c.Filter != nil {
				parts = append(parts, c.Filter)
			}
			groups = append(groups, group{parts, s.joinPrefix(c)})
		}
	}
	for _, gr := range groups {
		clauses, p := gr.clauses, gr.join
		if len(clauses) < 2 {
			continue
		}
		if p == "" {
			continue
		}
		for id, d := range docs {
			e := &Eval{S: s, ID: id, Root: s.Parse(d, true)}
			nodes := nodesAt(e.Root, p)
			if len(nodes) < 2 {
				continue
			}
			for i, a := range clauses {
				for j, b := range clauses {
					if i == j {
						continue
					}
					for x, m1 := range nodes {
						for y, m2 := range nodes {
							if x != y && e.Holds(a, m1) && e.Holds(b, m2) {
								return true
							}
						}
					}
				}
			}
		}
	}
	return false
}
