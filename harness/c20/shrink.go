package c20

import (
	"fmt"
	"sort"
	"strings"

	"verifharness/ev"
)

// Case is one self-contained search case: schema, write history, query, engine/mapping mode.
type Case struct {
	Schema  *Schema `json:"schema"`
	History History `json:"history"`
	Query   *Q      `json:"query"`
	Mode    string  `json:"mode"`
	Req     ReqOpt  `json:"req"`
}

type Outcome struct {
	Expected []string `json:"expected"`
	Observed Result   `json:"observed"`
	DocCount uint64   `json:"doc_count"`
	Wrong    string   `json:"wrong"` // "" = agrees
	Err      string   `json:"err,omitempty"`
}

// Run executes the case on a fresh in-memory index.
func (c *Case) Run() Outcome {
	var out Outcome
	live := c.History.Live()
	out.Expected = Expected(c.Schema, live, c.Query, c.Mode == ModeNested)
	panicked, val, _ := ev.Guard(func() {
		idx, err := newMemIndex(c.Schema, c.Mode)
		if err != nil {
			out.Err = "new: " + err.Error()
			return
		}
		defer idx.Close()
		for _, b := range c.History {
			if err := applyBatch(idx, b); err != nil {
				out.Err = "batch: " + err.Error()
				return
			}
		}
		out.DocCount, _ = idx.DocCount()
		out.Observed, err = search(idx, c.Query, c.Req)
		if err != nil {
			out.Err = "search: " + err.Error()
		}
	})
	if panicked {
		out.Err = fmt.Sprint("panic: ", val)
	}
	switch {
	case out.Err != "":
		out.Wrong = "error"
	case out.DocCount != uint64(len(live)):
		out.Wrong = "doccount"
	default:
		out.Wrong = checkResult(out.Expected, out.Observed, c.Req)
	}
	return out
}

// ---------------------------------------------------------------------------
// syntactic analysis of a query: which clause kinds address which arrays

// riskyKinds returns the kinds of compound nodes of q whose clauses address more than
// one array/the parent document and which bleve decides by comparing element ids.
func riskyKinds(s *Schema, q *Q) map[string]bool {
	out := map[string]bool{}
	var walk func(x *Q)
	walk = func(x *Q) {
		if !x.isLeaf() {
			mixed := len(s.addressedList(x)) >= 2
			switch {
			case x.Kind == "disj" && x.Min >= 2 && mixed:
				out["disj.min>=2"] = true
			case x.Kind == "bool" && mixed:
				others := len(x.Must) + len(x.Should) + len(x.MustNot)
				if len(x.MustNot) > 0 {
					out["bool.must_not"] = true
				}
				if len(x.Should) > 0 && (x.Min >= 2 || (x.Min >= 1 && len(x.Must) > 0)) {
					out["bool.should-min"] = true
				}
				if x.Filter != nil && others > 0 {
					out["bool.filter"] = true
				}
			}
		}
		for _, c := range x.children() {
			walk(c)
		}
	}
	walk(q)
	return out
}

func subset(a, b map[string]bool) bool {
	for k := range a {
		if !b[k] {
			return false
		}
	}
	return true
}

func queryFields(q *Q, into map[string]bool) {
	if q.isLeaf() {
		if q.Field != "" {
			into[q.Field] = true
		}
		return
	}
	for _, c := range q.children() {
		queryFields(c, into)
	}
}

// nameClash: some array path of the schema is a string prefix, but not a path prefix, of a
// field the query addresses (arrays "loc" and "locs", array "loc" and field "locale").
func nameClash(s *Schema, q *Q) bool {
	fs := map[string]bool{}
	queryFields(q, fs)
	for p := range s.Prefixes() {
		for f := range fs {
			if strings.HasPrefix(f, p) && !(f == p || strings.HasPrefix(f, p+".")) {
				return true
			}
		}
	}
	return false
}

func (h History) hasRewrites() bool {
	seen := map[string]bool{}
	for _, b := range h {
		for _, op := range b {
			if op.Doc == nil || seen[op.ID] {
				return true
			}
			seen[op.ID] = true
		}
	}
	return false
}

// Classify names the narrow syntactic class of a (shrunk) failing case.
func Classify(c *Case, o Outcome) string {
	pre := ""
	if c.Mode != ModeNested {
		pre = "control:" + c.Mode + "/"
	}
	switch o.Wrong {
	case "error":
		return pre + "search-error"
	case "element-as-hit":
		// which query shape lets element documents reach the hit list
		shape := "other"
		var walk func(x *Q)
		walk = func(x *Q) {
			if x.Kind == "bool" && len(x.Must) == 0 && len(x.Should) == 0 && x.Filter == nil {
				shape = "bool.must_not-only"
			}
			for _, k := range x.children() {
				walk(k)
			}
		}
		walk(c.Query)
		return pre + "hit.element-id@" + shape
	case "parent-twice":
		return pre + "hit.parent-twice"
	case "doccount":
		return pre + "doccount"
	}
	suffix := ""
	if o.Wrong == "total" {
		suffix = "/total-only"
	}
	if c.History.hasRewrites() {
		suffix += "+update-or-delete"
	}
	s, q := c.Schema, c.Query
	if c.Mode == ModeNested {
		var ks []string
		for k := range riskyKinds(s, q) {
			ks = append(ks, k)
		}
		sort.Strings(ks)
		if len(ks) > 0 {
			// bool.must_not@other-path, bool.should-min@other-path, disj.min>=2@other-path, bool.filter@other-path
			return strings.Join(ks, "+") + "@other-path" + suffix
		}
		if nameClash(s, q) {
			return "conj@array-name-is-string-prefix-of-sibling" + suffix
		}
	}
	shape := q.Kind
	switch q.Kind {
	case "conj", "disj", "bool":
		ps := s.addressedList(q)
		where := "one-path"
		if len(ps) >= 2 {
			where = "levels"
			for _, a := range ps {
				for _, b := range ps {
					rel := false
					for _, x := range s.ancestorsOrSelf(a) {
						if x == b {
							rel = true
						}
					}
					for _, x := range s.ancestorsOrSelf(b) {
						if x == a {
							rel = true
						}
					}
					if !rel {
						where = "siblings"
					}
				}
			}
			for _, a := range ps {
				if a == "" {
					where += "+top"
				}
			}
		}
		if q.Kind == "disj" {
			if q.Min >= 2 {
				shape = "disj.min>=2"
			} else {
				shape = "disj.min<=1"
			}
		}
		shape += "@" + where
	default:
		shape = "leaf." + q.Kind
	}
	return pre + shape + suffix
}

// ---------------------------------------------------------------------------
// shrinking: drop batches, operations, elements, fields, clauses while the case keeps failing

type shrinker struct {
	budget int
	kinds  map[string]bool // risky kinds of the original query: reductions may not introduce new ones
}

func (sh *shrinker) stillFails(c *Case) bool {
	if sh.budget <= 0 {
		return false
	}
	sh.budget--
	if c.Query == nil || len(c.History) == 0 {
		return false
	}
	if c.Mode == ModeNested && !subset(riskyKinds(c.Schema, c.Query), sh.kinds) {
		return false
	}
	return c.Run().Wrong != ""
}

func cloneDoc(v any) any {
	switch x := v.(type) {
	case map[string]any:
		m := map[string]any{}
		for k, e := range x {
			m[k] = cloneDoc(e)
		}
		return m
	case []any:
		a := make([]any, len(x))
		for i, e := range x {
			a[i] = cloneDoc(e)
		}
		return a
	}
	return v
}

func (c *Case) clone() *Case {
	n := &Case{Schema: c.Schema, Query: c.Query.clone(), Mode: c.Mode, Req: c.Req}
	for _, b := range c.History {
		var nb []Op
		for _, op := range b {
			o := Op{ID: op.ID}
			if op.Doc != nil {
				o.Doc = cloneDoc(op.Doc).(map[string]any)
			}
			nb = append(nb, o)
		}
		n.History = append(n.History, nb)
	}
	return n
}

// docVariants returns smaller versions of a JSON value (one step each).
func docVariants(v any) []any {
	var out []any
	switch x := v.(type) {
	case map[string]any:
		var keys []string
		for k := range x {
			keys = append(keys, k)
		}
		sort.Strings(keys)
		for _, k := range keys {
			m := map[string]any{}
			for k2, e := range x {
				if k2 != k {
					m[k2] = e
				}
			}
			out = append(out, m)
		}
		for _, k := range keys {
			for _, sub := range docVariants(x[k]) {
				m := map[string]any{}
				for k2, e := range x {
					m[k2] = e
				}
				m[k] = sub
				out = append(out, m)
			}
		}
	case []any:
		for i := range x {
			a := append(append([]any{}, x[:i]...), x[i+1:]...)
			out = append(out, a)
		}
		for i := range x {
			for _, sub := range docVariants(x[i]) {
				a := append([]any{}, x...)
				a[i] = sub
				out = append(out, a)
			}
		}
	case string:
		ws := strings.Fields(x)
		if len(ws) > 1 {
			for i := range ws {
				out = append(out, strings.Join(append(append([]string{}, ws[:i]...), ws[i+1:]...), " "))
			}
		}
	}
	return out
}

// queryVariants returns smaller versions of a query (one step each).
func queryVariants(q *Q) []*Q {
	var out []*Q
	if q.isLeaf() {
		if q.Kind == "match" {
			ws := strings.Fields(q.Text)
			if len(ws) > 1 {
				for _, w := range ws {
					out = append(out, &Q{Kind: "match", Field: q.Field, Text: w})
				}
			} else {
				out = append(out, &Q{Kind: "term", Field: q.Field, Text: q.Text})
			}
		}
		if q.Kind == "ids" && len(q.IDs) > 1 {
			for i := range q.IDs {
				out = append(out, &Q{Kind: "ids", IDs: append(append([]string{}, q.IDs[:i]...), q.IDs[i+1:]...)})
			}
		}
		return out
	}
	// a child instead of the node
	for _, c := range q.children() {
		out = append(out, c.clone())
	}
	drop := func(list []*Q, i int) []*Q {
		return append(append([]*Q{}, list[:i]...), list[i+1:]...)
	}
	switch q.Kind {
	case "conj", "disj":
		if len(q.Kids) > 1 {
			for i := range q.Kids {
				n := q.clone()
				n.Kids = drop(n.Kids, i)
				if n.Min > len(n.Kids) {
					n.Min = len(n.Kids)
				}
				out = append(out, n)
			}
		}
		if q.Kind == "disj" && q.Min > 0 {
			n := q.clone()
			n.Min--
			out = append(out, n)
		}
		if q.Kind == "conj" && len(q.Kids) == 1 {
			out = append(out, q.Kids[0].clone())
		}
	case "bool":
		total := len(q.Must) + len(q.Should) + len(q.MustNot)
		if q.Filter != nil {
			total++
		}
		if total > 1 {
			for i := range q.Must {
				n := q.clone()
				n.Must = drop(n.Must, i)
				out = append(out, n)
			}
			for i := range q.Should {
				n := q.clone()
				n.Should = drop(n.Should, i)
				if n.Min > len(n.Should) {
					n.Min = len(n.Should)
				}
				out = append(out, n)
			}
			for i := range q.MustNot {
				n := q.clone()
				n.MustNot = drop(n.MustNot, i)
				out = append(out, n)
			}
			if q.Filter != nil {
				n := q.clone()
				n.Filter = nil
				out = append(out, n)
			}
		}
		if q.Min > 0 {
			n := q.clone()
			n.Min--
			out = append(out, n)
		}
		if len(q.Should) == 0 && len(q.MustNot) == 0 && q.Filter == nil && len(q.Must) >= 2 {
			out = append(out, &Q{Kind: "conj", Kids: q.clone().Must})
		}
	}
	// recurse: replace one child by a smaller version of it
	repl := func(get func(n *Q) []*Q) {
		for i := range get(q) {
			for _, v := range queryVariants(get(q)[i]) {
				n := q.clone()
				get(n)[i] = v
				out = append(out, n)
			}
		}
	}
	repl(func(n *Q) []*Q { return n.Kids })
	repl(func(n *Q) []*Q { return n.Must })
	repl(func(n *Q) []*Q { return n.Should })
	repl(func(n *Q) []*Q { return n.MustNot })
	if q.Filter != nil {
		for _, v := range queryVariants(q.Filter) {
			n := q.clone()
			n.Filter = v
			out = append(out, n)
		}
	}
	return out
}

// pruneSchema drops arrays, sub-objects and fields the query does not address
// (their data is ignored by the mapping then, since every mapping is static).
func pruneSchema(s *Schema, q *Q) *Schema {
	fs := map[string]bool{}
	queryFields(q, fs)
	used := func(path string) bool {
		for f := range fs {
			if f == path || strings.HasPrefix(f, path+".") {
				return true
			}
		}
		return false
	}
	n := &Schema{Wrap: s.Wrap}
	for _, f := range s.Top {
		if used(join(s.Wrap, f.Name)) {
			n.Top = append(n.Top, f)
		}
	}
	var prune func(a *ArrSpec, parent string) *ArrSpec
	prune = func(a *ArrSpec, parent string) *ArrSpec {
		p := join(parent, a.Name)
		if !used(p) {
			return nil
		}
		na := &ArrSpec{Name: a.Name}
		for _, f := range a.Fields {
			if used(join(p, f.Name)) {
				na.Fields = append(na.Fields, f)
			}
		}
		if a.Obj != nil && used(join(p, a.Obj.Name)) {
			na.Obj = a.Obj
		}
		for _, sub := range a.Sub {
			if x := prune(sub, p); x != nil {
				na.Sub = append(na.Sub, x)
			}
		}
		return na
	}
	for _, a := range s.Arrays {
		if x := prune(a, s.Wrap); x != nil {
			n.Arrays = append(n.Arrays, x)
		}
	}
	return n
}

// Shrink returns a smaller case that still fails.
func Shrink(c *Case, budget int) *Case {
	sh := &shrinker{budget: budget, kinds: map[string]bool{}}
	if c.Mode == ModeNested {
		sh.kinds = riskyKinds(c.Schema, c.Query)
	}
	cur := c.clone()
	cur.Req = fullReq
	if !sh.stillFails(cur) {
		cur.Req = c.Req // the failure needs the original paging/sort
	}
	// 1. only the live documents, one batch
	{
		n := cur.clone()
		live := cur.History.Live()
		var ids []string
		for id := range live {
			ids = append(ids, id)
		}
		sort.Strings(ids)
		var b []Op
		for _, id := range ids {
			b = append(b, Op{ID: id, Doc: live[id]})
		}
		n.History = History{b}
		if len(b) > 0 && sh.stillFails(n) {
			cur = n
		}
	}
	for round := 0; round < 6; round++ {
		changed := false
		// 2. drop batches and operations
		for i := 0; i < len(cur.History); i++ {
			n := cur.clone()
			n.History = append(append(History{}, n.History[:i]...), n.History[i+1:]...)
			if sh.stillFails(n) {
				cur, changed = n, true
				i--
			}
		}
		for i := 0; i < len(cur.History); i++ {
			for j := 0; j < len(cur.History[i]); j++ {
				if len(cur.History[i]) == 1 {
					break
				}
				n := cur.clone()
				n.History[i] = append(append([]Op{}, n.History[i][:j]...), n.History[i][j+1:]...)
				if sh.stillFails(n) {
					cur, changed = n, true
					j--
				}
			}
		}
		// 3. smaller queries
		for again := true; again; {
			again = false
			for _, v := range queryVariants(cur.Query) {
				n := cur.clone()
				n.Query = v
				if sh.stillFails(n) {
					cur, changed, again = n, true, true
					break
				}
			}
		}
		// 4. smaller schema (arrays and fields the query does not address)
		{
			n := cur.clone()
			n.Schema = pruneSchema(cur.Schema, cur.Query)
			if len(n.Schema.Fields()) < len(cur.Schema.Fields()) && sh.stillFails(n) {
				cur, changed = n, true
			}
		}
		// 5. smaller documents
		for i := 0; i < len(cur.History); i++ {
			for j := 0; j < len(cur.History[i]); j++ {
				for again := true; again && cur.History[i][j].Doc != nil; {
					again = false
					for _, v := range docVariants(cur.History[i][j].Doc) {
						n := cur.clone()
						n.History[i][j].Doc = v.(map[string]any)
						if sh.stillFails(n) {
							cur, changed, again = n, true, true
							break
						}
					}
				}
			}
		}
		if !changed || sh.budget <= 0 {
			break
		}
	}
	return cur
}

// Witness renders a case for a replay file / report: bleve's own JSON forms plus the model's view.
func (c *Case) Witness(o Outcome) map[string]any {
	docs := []any{}
	for bi, b := range c.History {
		for _, op := range b {
			e := map[string]any{"batch": bi, "id": op.ID}
			if op.Doc == nil {
				e["delete"] = true
			} else {
				e["doc"] = op.Doc
			}
			docs = append(docs, e)
		}
	}
	return map[string]any{
		"mode":         c.Mode,
		"mapping":      mustJSON(BuildMapping(c.Schema, c.Mode == ModeNested)),
		"documents":    docs,
		"query":        mustJSON(BuildQuery(c.Query)),
		"request":      c.Req,
		"expected":     o.Expected,
		"observed":     o.Observed,
		"doc_count":    o.DocCount,
		"wrong":        o.Wrong,
		"error":        o.Err,
		"case":         c, // the monitor's own form (replayable)
		"arrays":       c.Schema.Prefixes(),
		"addresses":    c.Schema.addressedList(c.Query),
		"risky_shapes": riskyKinds(c.Schema, c.Query),
	}
}
