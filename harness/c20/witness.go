package c20

// Committed witnesses, replayed first on every run.
//
//   - F12 (array name is a string prefix of a sibling array's name): must hold again once
//     registry.NestedFieldCache.prefixMatch compares whole path elements; fires if it returns.
//   - a boolean that has only must_not clauses, all on top-level fields, is collected by the
//     plain collector although its implicit match-all visits element documents: elements
//     come back as hits and are counted in Total.
//   - F8 (boolean must_not / should-min / filter and disjunction min>=2 are not nesting-aware):
//     four minimal witnesses, one per narrow class. The monitor only calls r.Violation with the
//     class computed from the witness; whether that prints VIOLATION or KNOWN-FINDING is decided
//     by known_findings.json.

type committed struct {
	Name  string
	Class string // the class Classify must compute for it (checked at run time)
	Case  *Case
}

func text(names ...string) []FieldSpec {
	var out []FieldSpec
	for _, n := range names {
		out = append(out, FieldSpec{Name: n, Kind: "text"})
	}
	return out
}

func one(id string, doc map[string]any) History { return History{{{ID: id, Doc: doc}}} }

func term(f, t string) *Q { return &Q{Kind: "term", Field: f, Text: t} }

func committedWitnesses() []committed {
	company := &Schema{
		Top: text("name"),
		Arrays: []*ArrSpec{
			{Name: "emps", Fields: text("name", "role")},
			{Name: "locs", Fields: text("city")},
		},
	}
	return []committed{
		{
			Name:  "F12 loc/locs",
			Class: "conj@array-name-is-string-prefix-of-sibling",
			Case: &Case{
				Schema: &Schema{Arrays: []*ArrSpec{
					{Name: "loc", Fields: text("city")},
					{Name: "locs", Fields: text("city")},
				}},
				History: one("d1", map[string]any{
					"loc":  []any{map[string]any{"city": "rome"}},
					"locs": []any{map[string]any{"city": "oslo"}},
				}),
				Query: &Q{Kind: "conj", Kids: []*Q{term("loc.city", "rome"), term("locs.city", "oslo")}},
				Mode:  ModeNested, Req: fullReq,
			},
		},
		{
			Name:  "F12 array loc / top-level field locale",
			Class: "conj@array-name-is-string-prefix-of-sibling",
			Case: &Case{
				Schema: &Schema{Top: text("locale"), Arrays: []*ArrSpec{
					{Name: "loc", Fields: text("city")},
				}},
				History: one("d1", map[string]any{
					"locale": "ada",
					"loc":    []any{map[string]any{"city": "rome"}},
				}),
				Query: &Q{Kind: "conj", Kids: []*Q{term("locale", "ada"), term("loc.city", "rome")}},
				Mode:  ModeNested, Req: fullReq,
			},
		},
		{
			Name:  "boolean with only must_not over a top-level field returns element documents as hits",
			Class: "hit.element-id@bool.must_not-only",
			Case: &Case{
				Schema: company,
				History: one("d1", map[string]any{
					"emps": []any{map[string]any{"name": "eve"}},
				}),
				Query: &Q{Kind: "bool", MustNot: []*Q{term("name", "acme")}},
				Mode:  ModeNested, Req: fullReq,
			},
		},
		{
			Name:  "F8 must_not over another array",
			Class: "bool.must_not@other-path",
			Case: &Case{
				Schema: company,
				History: one("d1", map[string]any{
					"emps": []any{map[string]any{"role": "manager"}},
					"locs": []any{map[string]any{"city": "london"}},
				}),
				Query: &Q{Kind: "bool", Must: []*Q{term("locs.city", "london")}, MustNot: []*Q{term("emps.role", "manager")}},
				Mode:  ModeNested, Req: fullReq,
			},
		},
		{
			Name:  "F8 should min 1 over another path",
			Class: "bool.should-min@other-path",
			Case: &Case{
				Schema: company,
				History: one("d1", map[string]any{
					"name": "acme",
					"locs": []any{map[string]any{"city": "paris"}},
				}),
				Query: &Q{Kind: "bool", Must: []*Q{term("name", "acme")}, Should: []*Q{term("locs.city", "paris")}, Min: 1},
				Mode:  ModeNested, Req: fullReq,
			},
		},
		{
			Name:  "F8 disjunction min 2 over two arrays",
			Class: "disj.min>=2@other-path",
			Case: &Case{
				Schema: company,
				History: one("d1", map[string]any{
					"emps": []any{map[string]any{"role": "manager"}},
					"locs": []any{map[string]any{"city": "london"}},
				}),
				Query: &Q{Kind: "disj", Min: 2, Kids: []*Q{term("locs.city", "london"), term("emps.role", "manager")}},
				Mode:  ModeNested, Req: fullReq,
			},
		},
		{
			Name:  "F8 filter over another path",
			Class: "bool.filter@other-path",
			Case: &Case{
				Schema: company,
				History: one("d1", map[string]any{
					"name": "acme",
					"emps": []any{map[string]any{"role": "manager"}},
				}),
				Query: &Q{Kind: "bool", Must: []*Q{term("name", "acme")}, Filter: term("emps.role", "manager")},
				Mode:  ModeNested, Req: fullReq,
			},
		},
	}
}
