// Package corpus holds the shared, seeded generators (vocabulary, documents,
// histories, index configurations) and the last-write-wins reference model
// used by several property monitors.
package corpus

import (
	"encoding/json"
	"fmt"
	"os"
	"path/filepath"
	"sort"
	"time"

	"github.com/blevesearch/bleve/v2"
	_ "github.com/blevesearch/bleve/v2/config"
	"github.com/blevesearch/bleve/v2/index/scorch"
	"github.com/blevesearch/bleve/v2/index/upsidedown"
	"github.com/blevesearch/bleve/v2/index/upsidedown/store/boltdb"
	"github.com/blevesearch/bleve/v2/index/upsidedown/store/goleveldb"
	"github.com/blevesearch/bleve/v2/index/upsidedown/store/gtreap"
	_ "github.com/blevesearch/bleve/v2/index/upsidedown/store/metrics"
	"github.com/blevesearch/bleve/v2/index/upsidedown/store/moss"
	"github.com/blevesearch/bleve/v2/mapping"

	"verifharness/rng"
)

// Words is deliberately tiny so that terms collide; it has shared prefixes,
// edit-distance-1 neighbours, a transposition pair and no analyzer stop words.
var Words = []string{
	"alpha", "alpah", "alps", "beta", "bet", "betas", "gamma", "gama", "delta", "delt",
	"kappa", "zeta",
}

// Tags are keyword-analysed values (whole value = one term).
var Tags = []string{"red", "reed", "green", "blue", "blu", "x-1", "Mixed Case", "zz top"}

// Doc is one logical document. Field values are JSON-like (string, []any, float64, bool).
type Doc struct {
	ID     string         `json:"id"`
	Fields map[string]any `json:"fields"`
}

// Clone returns a deep copy through JSON.
func (d *Doc) Clone() *Doc {
	b, _ := json.Marshal(d)
	var c Doc
	_ = json.Unmarshal(b, &c)
	return &c
}

// Mapping returns the static mapping all shared generators use.
//
//	title  text  "standard" analyzer, stored, term vectors
//	body   text  "simple"  analyzer, stored, term vectors, usually an array
//	tag    text  "keyword" analyzer, stored, doc values, multi-valued
//	num    number stored; date datetime stored; flag boolean stored
//	notv   text  "simple", no term vectors, not stored (optimisable unadorned paths)
//	ver    number stored (version marker used by the writer workloads)
//	blob   text stored only (not indexed): a document may consist of stored fields alone
func Mapping() *mapping.IndexMappingImpl {
	m := bleve.NewIndexMapping()
	dm := bleve.NewDocumentStaticMapping()

	title := bleve.NewTextFieldMapping()
	title.Analyzer = "standard"
	title.Store = true
	title.IncludeTermVectors = true
	title.IncludeInAll = true
	dm.AddFieldMappingsAt("title", title)

	body := bleve.NewTextFieldMapping()
	body.Analyzer = "simple"
	body.Store = true
	body.IncludeTermVectors = true
	body.IncludeInAll = true
	dm.AddFieldMappingsAt("body", body)

	tag := bleve.NewTextFieldMapping()
	tag.Analyzer = "keyword"
	tag.Store = true
	tag.IncludeTermVectors = false
	tag.IncludeInAll = false
	tag.DocValues = true
	dm.AddFieldMappingsAt("tag", tag)

	notv := bleve.NewTextFieldMapping()
	notv.Analyzer = "simple"
	notv.Store = false
	notv.IncludeTermVectors = false
	notv.IncludeInAll = false
	dm.AddFieldMappingsAt("notv", notv)

	num := bleve.NewNumericFieldMapping()
	num.Store = true
	num.IncludeInAll = false
	dm.AddFieldMappingsAt("num", num)

	date := bleve.NewDateTimeFieldMapping()
	date.Store = true
	date.IncludeInAll = false
	dm.AddFieldMappingsAt("date", date)

	flag := bleve.NewBooleanFieldMapping()
	flag.Store = true
	flag.IncludeInAll = false
	dm.AddFieldMappingsAt("flag", flag)

	blob := bleve.NewTextFieldMapping()
	blob.Store = true
	blob.Index = false
	blob.IncludeTermVectors = false
	blob.IncludeInAll = false
	blob.DocValues = false
	dm.AddFieldMappingsAt("blob", blob)

	ver := bleve.NewNumericFieldMapping()
	ver.Store = true
	ver.IncludeInAll = false
	dm.AddFieldMappingsAt("ver", ver)

	m.DefaultMapping = dm
	m.DefaultAnalyzer = "standard"
	return m
}

var baseDate = time.Date(2020, 1, 1, 0, 0, 0, 0, time.UTC)

// GenSentence returns 1..maxWords words.
func GenSentence(g *rng.Rand, maxWords int) string {
	n := g.Range(1, maxWords)
	s := ""
	for i := 0; i < n; i++ {
		if i > 0 {
			s += " "
		}
		s += rng.Pick(g, Words)
	}
	return s
}

// GenDoc makes a document for id; every field is optional.
func GenDoc(g *rng.Rand, id string) *Doc {
	f := map[string]any{}
	if g.Chance(1, 10) {
		// a document that produces no index terms at all: stored-only content and/or a
		// text field that analyses to nothing (stop words, empty string)
		switch g.Intn(3) {
		case 0:
			f["blob"] = GenSentence(g, 3)
		case 1:
			f["blob"] = GenSentence(g, 2)
			f["title"] = rng.Pick(g, []string{"the", "and the", "", "of the and"})
		default:
			f["title"] = rng.Pick(g, []string{"the", "", "a an the"})
		}
		return &Doc{ID: id, Fields: f}
	}
	if g.Chance(1, 6) {
		f["blob"] = GenSentence(g, 3)
	}
	if g.Chance(8, 10) {
		f["title"] = GenSentence(g, 4)
	}
	if g.Chance(7, 10) {
		n := g.Range(1, 3)
		if n == 1 && g.Bool() {
			f["body"] = GenSentence(g, 5)
		} else {
			arr := make([]any, n)
			for i := range arr {
				arr[i] = GenSentence(g, 4)
			}
			f["body"] = arr
		}
	}
	if g.Chance(7, 10) {
		n := g.Range(1, 3)
		if n == 1 {
			f["tag"] = rng.Pick(g, Tags)
		} else {
			arr := make([]any, n)
			for i := range arr {
				arr[i] = rng.Pick(g, Tags)
			}
			f["tag"] = arr
		}
	}
	if g.Chance(6, 10) {
		f["notv"] = GenSentence(g, 3)
	}
	if g.Chance(7, 10) {
		if g.Chance(1, 4) {
			f["num"] = []any{float64(g.Range(-5, 20)), float64(g.Range(-5, 20)) + 0.5}
		} else {
			f["num"] = float64(g.Range(-5, 20))
		}
	}
	if g.Chance(6, 10) {
		f["date"] = baseDate.Add(time.Duration(g.Range(0, 40)) * 24 * time.Hour).Format(time.RFC3339)
	}
	if g.Chance(5, 10) {
		f["flag"] = g.Bool()
	}
	return &Doc{ID: id, Fields: f}
}

// ---------------------------------------------------------------------------
// histories

type Op struct {
	Kind string `json:"k"`  // index | delete | setint | delint
	ID   string `json:"id"` // doc id or internal key
	Doc  *Doc   `json:"doc,omitempty"`
	Val  string `json:"val,omitempty"`
}

// Batch is a list of ops applied atomically; a single-op batch may be applied
// through Index/Delete/SetInternal/DeleteInternal directly (Direct).
type Batch struct {
	Ops    []Op `json:"ops"`
	Direct bool `json:"direct,omitempty"`
}

type History struct {
	Batches []Batch `json:"batches"`
}

func (h *History) NumOps() int {
	n := 0
	for _, b := range h.Batches {
		n += len(b.Ops)
	}
	return n
}

func DocID(i int) string { return fmt.Sprintf("d%02d", i) }

// GenOps produces n operations over nIDs ids and a few internal keys.
func GenOps(g *rng.Rand, n, nIDs int) []Op {
	ops := make([]Op, 0, n)
	for i := 0; i < n; i++ {
		id := DocID(g.Intn(nIDs))
		switch x := g.Intn(100); {
		case x < 58:
			ops = append(ops, Op{Kind: "index", ID: id, Doc: GenDoc(g, id)})
		case x < 85:
			ops = append(ops, Op{Kind: "delete", ID: id})
		case x < 95:
			ops = append(ops, Op{Kind: "setint", ID: fmt.Sprintf("k%d", g.Intn(3)), Val: fmt.Sprintf("v%d", g.Intn(1000))})
		default:
			ops = append(ops, Op{Kind: "delint", ID: fmt.Sprintf("k%d", g.Intn(3))})
		}
	}
	return ops
}

// Partition splits ops into batches; maxBatch 1 gives one-op batches. Empty
// batches are inserted with small probability.
func Partition(g *rng.Rand, ops []Op, maxBatch int) *History {
	h := &History{}
	for i := 0; i < len(ops); {
		if g.Chance(1, 25) {
			h.Batches = append(h.Batches, Batch{})
		}
		n := g.Range(1, maxBatch)
		if i+n > len(ops) {
			n = len(ops) - i
		}
		b := Batch{Ops: append([]Op(nil), ops[i:i+n]...)}
		if n == 1 && g.Bool() {
			b.Direct = true
		}
		h.Batches = append(h.Batches, b)
		i += n
	}
	return h
}

// LWW is the reference model: id → latest document, internal key → latest value.
type LWW struct {
	Docs     map[string]*Doc
	Internal map[string]string
}

func NewLWW() *LWW { return &LWW{Docs: map[string]*Doc{}, Internal: map[string]string{}} }

func (m *LWW) Clone() *LWW {
	c := NewLWW()
	for k, v := range m.Docs {
		c.Docs[k] = v
	}
	for k, v := range m.Internal {
		c.Internal[k] = v
	}
	return c
}

// Apply applies a batch atomically; the last op per id/key wins (ops on docs
// and on internal keys are independent name spaces).
func (m *LWW) Apply(b Batch) {
	for _, op := range b.Ops {
		switch op.Kind {
		case "index":
			m.Docs[op.ID] = op.Doc
		case "delete":
			delete(m.Docs, op.ID)
		case "setint":
			m.Internal[op.ID] = op.Val
		case "delint":
			delete(m.Internal, op.ID)
		}
	}
}

func (m *LWW) LiveIDs() []string {
	ids := make([]string, 0, len(m.Docs))
	for id := range m.Docs {
		ids = append(ids, id)
	}
	sort.Strings(ids)
	return ids
}

// LiveDocs returns the live documents sorted by id.
func (m *LWW) LiveDocs() []*Doc {
	var out []*Doc
	for _, id := range m.LiveIDs() {
		out = append(out, m.Docs[id])
	}
	return out
}

// ToBleve converts a model batch to a bleve batch. Within a bleve batch the
// last operation per id wins because index.Batch keeps a map.
func ToBleve(idx bleve.Index, b Batch) (*bleve.Batch, error) {
	bb := idx.NewBatch()
	for _, op := range b.Ops {
		switch op.Kind {
		case "index":
			if err := bb.Index(op.ID, op.Doc.Fields); err != nil {
				return nil, err
			}
		case "delete":
			bb.Delete(op.ID)
		case "setint":
			bb.SetInternal([]byte(op.ID), []byte(op.Val))
		case "delint":
			bb.DeleteInternal([]byte(op.ID))
		}
	}
	return bb, nil
}

// ApplyBatch applies one model batch to a real index through the public API.
func ApplyBatch(idx bleve.Index, b Batch) error {
	if b.Direct && len(b.Ops) == 1 {
		op := b.Ops[0]
		switch op.Kind {
		case "index":
			return idx.Index(op.ID, op.Doc.Fields)
		case "delete":
			return idx.Delete(op.ID)
		case "setint":
			return idx.SetInternal([]byte(op.ID), []byte(op.Val))
		case "delint":
			return idx.DeleteInternal([]byte(op.ID))
		}
	}
	bb, err := ToBleve(idx, b)
	if err != nil {
		return err
	}
	return idx.Batch(bb)
}

// ---------------------------------------------------------------------------
// index configurations

type Config struct {
	Name      string         `json:"name"`
	IndexType string         `json:"index_type"`
	KV        string         `json:"kv"`
	OnDisk    bool           `json:"on_disk"`
	KVConfig  map[string]any `json:"kvconfig,omitempty"`
}

func (c Config) IsScorch() bool { return c.IndexType == scorch.Name }

// AggressiveMerge makes the merger and persister work on tiny indexes.
func AggressiveMerge() map[string]any {
	return map[string]any{
		"scorchMergePlanOptions": map[string]any{
			"maxSegmentsPerTier": 2, "segmentsPerMergeTask": 2, "floorSegmentSize": 1, "maxSegmentSize": 1000000,
			"tierGrowth": 2.0, "reclaimDeletesWeight": 2.0,
		},
	}
}

// MultiWorkerPersister enables the parallel in-memory merge path.
func MultiWorkerPersister() map[string]any {
	return map[string]any{
		"scorchPersisterOptions": map[string]any{
			"NumPersisterWorkers": 3, "MaxSizeInMemoryMergePerWorker": 2000,
		},
	}
}

func merge(ms ...map[string]any) map[string]any {
	out := map[string]any{}
	for _, m := range ms {
		for k, v := range m {
			out[k] = v
		}
	}
	return out
}

// AllConfigs lists every engine/store configuration of the design.
func AllConfigs() []Config {
	return []Config{
		{Name: "scorch-mem", IndexType: scorch.Name, KV: scorch.Name},
		{Name: "scorch-disk", IndexType: scorch.Name, KV: scorch.Name, OnDisk: true},
		{Name: "scorch-disk-unsafe", IndexType: scorch.Name, KV: scorch.Name, OnDisk: true, KVConfig: map[string]any{"unsafe_batch": true}},
		{Name: "scorch-disk-merge", IndexType: scorch.Name, KV: scorch.Name, OnDisk: true, KVConfig: merge(AggressiveMerge(), map[string]any{"unsafe_batch": true})},
		{Name: "scorch-disk-p3", IndexType: scorch.Name, KV: scorch.Name, OnDisk: true, KVConfig: merge(MultiWorkerPersister(), AggressiveMerge(), map[string]any{"unsafe_batch": true})},
		{Name: "scorch-disk-v15", IndexType: scorch.Name, KV: scorch.Name, OnDisk: true, KVConfig: map[string]any{"forceSegmentType": "zap", "forceSegmentVersion": 15, "unsafe_batch": true}},
		{Name: "scorch-disk-v11", IndexType: scorch.Name, KV: scorch.Name, OnDisk: true, KVConfig: map[string]any{"forceSegmentType": "zap", "forceSegmentVersion": 11, "unsafe_batch": true}},
		{Name: "upsidedown-gtreap", IndexType: upsidedown.Name, KV: gtreap.Name},
		{Name: "upsidedown-boltdb", IndexType: upsidedown.Name, KV: boltdb.Name, OnDisk: true, KVConfig: map[string]any{"nosync": true, "initialMmapSize": 8 << 20}},
		{Name: "upsidedown-goleveldb", IndexType: upsidedown.Name, KV: goleveldb.Name, OnDisk: true},
		{Name: "upsidedown-moss", IndexType: upsidedown.Name, KV: moss.Name},
		{Name: "upsidedown-moss-lower", IndexType: upsidedown.Name, KV: moss.Name, OnDisk: true, KVConfig: map[string]any{"mossLowerLevelStoreName": "mossStore"}},
		{Name: "upsidedown-metrics-gtreap", IndexType: upsidedown.Name, KV: "metrics", KVConfig: map[string]any{"kvStoreName_actual": gtreap.Name}},
	}
}

func ConfigByName(name string) Config {
	for _, c := range AllConfigs() {
		if c.Name == name {
			return c
		}
	}
	panic("unknown config " + name)
}

// Open creates a fresh index for the configuration. dir is used when OnDisk.
func (c Config) Open(dir string, m mapping.IndexMapping) (bleve.Index, error) {
	path := ""
	if c.OnDisk {
		path = filepath.Join(dir, c.Name)
		_ = os.RemoveAll(path)
	}
	kvc := map[string]any{}
	for k, v := range c.KVConfig {
		kvc[k] = v
	}
	return bleve.NewUsing(path, m, c.IndexType, c.KV, kvc)
}

// Path of the on-disk index inside dir.
func (c Config) Path(dir string) string { return filepath.Join(dir, c.Name) }

// WaitPersisted blocks until everything applied so far is durable: it submits an
// empty marker batch with a persisted callback (the documented way to learn
// about durability in unsafe_batch mode) and waits for it. In-memory and
// non-scorch indexes return immediately.
func WaitPersisted(idx bleve.Index, c Config) error {
	if !c.IsScorch() || !c.OnDisk {
		return nil
	}
	b := idx.NewBatch()
	done := make(chan error, 1)
	b.SetPersistedCallback(func(err error) { done <- err })
	if err := idx.Batch(b); err != nil {
		return err
	}
	select {
	case err := <-done:
		return err
	case <-time.After(120 * time.Second):
		return fmt.Errorf("persisted callback not fired within 120s (watchdog)")
	}
}

// DurableOnClose says whether a clean Close followed by Open is promised to
// preserve everything that was applied (after WaitPersisted for scorch).
func (c Config) DurableOnClose() bool {
	if !c.OnDisk {
		return false
	}
	// moss with a lower-level store persists asynchronously and Close does not
	// wait for it; that store makes no durability promise the property could rely on.
	return c.KV != moss.Name
}
