package corpus

import (
	"encoding/json"
	"fmt"
	"regexp"
	"sort"
	"strings"
	"time"

	"github.com/blevesearch/bleve/v2"
	"github.com/blevesearch/bleve/v2/document"
	"github.com/blevesearch/bleve/v2/mapping"
	"github.com/blevesearch/bleve/v2/search/query"
	index "github.com/blevesearch/bleve_index_api"

	"verifharness/rng"
)

// ---------------------------------------------------------------------------
// document model: analysed field values of one document (shares only the
// analyzers and the mapping walk with the implementation)

type Tok struct {
	Term string
	Pos  int
	AP   string // array positions, printed
}

type FieldVal struct {
	Tokens []Tok
	Nums   []float64
	Dates  []time.Time
	Bools  []bool
}

type DocModel struct {
	ID string
	F  map[string]*FieldVal
}

func (d *DocModel) fv(name string) *FieldVal {
	v := d.F[name]
	if v == nil {
		v = &FieldVal{}
		d.F[name] = v
	}
	return v
}

// Analyse maps the document with the mapping and records the analysed terms
// (with positions) of every indexed field, plus decoded numbers, dates, bools.
func Analyse(m mapping.IndexMapping, d *Doc) (*DocModel, error) {
	bd := document.NewDocument(d.ID)
	if err := m.MapDocument(bd, d.Fields); err != nil {
		return nil, err
	}
	dm := &DocModel{ID: d.ID, F: map[string]*FieldVal{}}
	add := func(name string, f document.Field) {
		if !f.Options().IsIndexed() {
			return
		}
		fv := dm.fv(name)
		switch tf := f.(type) {
		case *document.NumericField:
			if n, err := tf.Number(); err == nil {
				fv.Nums = append(fv.Nums, n)
			}
			return
		case *document.DateTimeField:
			if t, _, err := tf.DateTime(); err == nil {
				fv.Dates = append(fv.Dates, t)
			}
			return
		case *document.BooleanField:
			if b, err := tf.Boolean(); err == nil {
				fv.Bools = append(fv.Bools, b)
			}
			return
		}
		f.Analyze()
		for term, freq := range f.AnalyzedTokenFrequencies() {
			for _, loc := range freq.Locations {
				fv.Tokens = append(fv.Tokens, Tok{Term: term, Pos: loc.Position, AP: fmt.Sprint(loc.ArrayPositions)})
			}
			if len(freq.Locations) == 0 {
				fv.Tokens = append(fv.Tokens, Tok{Term: term, Pos: -1, AP: fmt.Sprint(f.ArrayPositions())})
			}
		}
	}
	for _, f := range bd.Fields {
		add(f.Name(), f)
	}
	// composite fields (_all): composed the way the index does it
	for _, cf := range bd.CompositeFields {
		for _, f := range bd.Fields {
			if f.Options().IsIndexed() {
				cf.Compose(f.Name(), f.AnalyzedLength(), f.AnalyzedTokenFrequencies())
			}
		}
		all := dm.fv(cf.Name())
		for term := range cf.AnalyzedTokenFrequencies() {
			all.Tokens = append(all.Tokens, Tok{Term: term, Pos: -1})
		}
	}
	return dm, nil
}

// AnalyseAll analyses the live documents of a model.
func AnalyseAll(m mapping.IndexMapping, docs []*Doc) ([]*DocModel, error) {
	out := make([]*DocModel, 0, len(docs))
	for _, d := range docs {
		dm, err := Analyse(m, d)
		if err != nil {
			return nil, err
		}
		out = append(out, dm)
	}
	return out, nil
}

// ---------------------------------------------------------------------------
// query AST

type Q struct {
	Kind  string   `json:"kind"`
	Field string   `json:"field,omitempty"`
	Text  string   `json:"text,omitempty"`  // term / match text / prefix / pattern
	Terms []string `json:"terms,omitempty"` // phrase terms ("" = gap)
	And   bool     `json:"and,omitempty"`   // match operator
	Fuzz  int      `json:"fuzz,omitempty"`
	PLen  int      `json:"plen,omitempty"`

	Min    *float64 `json:"min,omitempty"`
	Max    *float64 `json:"max,omitempty"`
	IncMin *bool    `json:"incmin,omitempty"`
	IncMax *bool    `json:"incmax,omitempty"`
	MinS   string   `json:"mins,omitempty"`
	MaxS   string   `json:"maxs,omitempty"`
	Start  string   `json:"start,omitempty"` // RFC3339Nano, "" = open
	End    string   `json:"end,omitempty"`
	Bool   bool     `json:"bool,omitempty"`
	IDs    []string `json:"ids,omitempty"`

	Kids      []*Q    `json:"kids,omitempty"` // conj / disj
	DisjMin   int     `json:"dmin,omitempty"`
	Must      []*Q    `json:"must,omitempty"`
	Should    []*Q    `json:"should,omitempty"`
	MustNot   []*Q    `json:"must_not,omitempty"`
	Filter    *Q      `json:"filter,omitempty"`
	ShouldMin int     `json:"smin,omitempty"`
	Boost     float64 `json:"boost,omitempty"`
}

func (q *Q) String() string {
	b, _ := json.Marshal(q)
	return string(b)
}

func (q *Q) Clone() *Q {
	var c Q
	b, _ := json.Marshal(q)
	_ = json.Unmarshal(b, &c)
	return &c
}

// Children returns all direct sub-queries (for shrinking and statistics).
func (q *Q) Children() []*Q {
	var out []*Q
	out = append(out, q.Kids...)
	out = append(out, q.Must...)
	out = append(out, q.Should...)
	out = append(out, q.MustNot...)
	if q.Filter != nil {
		out = append(out, q.Filter)
	}
	return out
}

// Kinds collects the node kinds of the tree.
func (q *Q) Kinds(into map[string]int) {
	into[q.Kind]++
	for _, c := range q.Children() {
		c.Kinds(into)
	}
}

func (q *Q) Depth() int {
	d := 0
	for _, c := range q.Children() {
		if x := c.Depth(); x > d {
			d = x
		}
	}
	return d + 1
}

func (q *Q) Size() int {
	n := 1
	for _, c := range q.Children() {
		n += c.Size()
	}
	return n
}

type fieldSetter interface{ SetField(string) }
type boostSetter interface{ SetBoost(float64) }

func parseT(s string) time.Time {
	if s == "" {
		return time.Time{}
	}
	t, err := time.Parse(time.RFC3339Nano, s)
	if err != nil {
		panic(err)
	}
	return t
}

// Bleve builds the real query.
func (q *Q) Bleve() query.Query {
	var out query.Query
	switch q.Kind {
	case "term":
		out = bleve.NewTermQuery(q.Text)
	case "match":
		mq := bleve.NewMatchQuery(q.Text)
		if q.And {
			mq.SetOperator(query.MatchQueryOperatorAnd)
		}
		mq.SetFuzziness(q.Fuzz)
		mq.SetPrefix(q.PLen)
		out = mq
	case "matchphrase":
		out = bleve.NewMatchPhraseQuery(q.Text)
	case "phrase":
		out = bleve.NewPhraseQuery(q.Terms, q.Field)
	case "prefix":
		out = bleve.NewPrefixQuery(q.Text)
	case "wildcard":
		out = bleve.NewWildcardQuery(q.Text)
	case "regexp":
		out = bleve.NewRegexpQuery(q.Text)
	case "fuzzy":
		fq := bleve.NewFuzzyQuery(q.Text)
		fq.SetFuzziness(q.Fuzz)
		fq.SetPrefix(q.PLen)
		out = fq
	case "termrange":
		out = bleve.NewTermRangeInclusiveQuery(q.MinS, q.MaxS, q.IncMin, q.IncMax)
	case "numrange":
		out = bleve.NewNumericRangeInclusiveQuery(q.Min, q.Max, q.IncMin, q.IncMax)
	case "daterange":
		out = bleve.NewDateRangeInclusiveQuery(parseT(q.Start), parseT(q.End), q.IncMin, q.IncMax)
	case "boolfield":
		out = bleve.NewBoolFieldQuery(q.Bool)
	case "docid":
		out = bleve.NewDocIDQuery(q.IDs)
	case "all":
		out = bleve.NewMatchAllQuery()
	case "none":
		out = bleve.NewMatchNoneQuery()
	case "conj":
		kids := make([]query.Query, len(q.Kids))
		for i, k := range q.Kids {
			kids[i] = k.Bleve()
		}
		out = bleve.NewConjunctionQuery(kids...)
	case "disj":
		kids := make([]query.Query, len(q.Kids))
		for i, k := range q.Kids {
			kids[i] = k.Bleve()
		}
		dq := bleve.NewDisjunctionQuery(kids...)
		dq.SetMin(float64(q.DisjMin))
		out = dq
	case "bool":
		conv := func(qs []*Q) []query.Query {
			var r []query.Query
			for _, k := range qs {
				r = append(r, k.Bleve())
			}
			return r
		}
		bq := query.NewBooleanQuery(conv(q.Must), conv(q.Should), conv(q.MustNot))
		if len(q.Should) > 0 {
			bq.SetMinShould(float64(q.ShouldMin))
		}
		if q.Filter != nil {
			bq.AddFilter(q.Filter.Bleve())
		}
		out = bq
	default:
		panic("unknown kind " + q.Kind)
	}
	if q.Field != "" && q.Kind != "phrase" {
		if fs, ok := out.(fieldSetter); ok {
			fs.SetField(q.Field)
		}
	}
	if q.Boost != 0 {
		if bs, ok := out.(boostSetter); ok {
			bs.SetBoost(q.Boost)
		}
	}
	return out
}

// ---------------------------------------------------------------------------
// evaluator (documented meaning, set semantics)

// Tri is a three-valued verdict for one (query, doc) pair.
type Tri int

const (
	No Tri = iota
	Yes
	DontCare // inside a documented tolerance band (fuzzy transposition)
)

func and3(a, b Tri) Tri {
	if a == No || b == No {
		return No
	}
	if a == DontCare || b == DontCare {
		return DontCare
	}
	return Yes
}

func not3(a Tri) Tri {
	switch a {
	case Yes:
		return No
	case No:
		return Yes
	}
	return DontCare
}

// atLeast: are at least k of the verdicts true?
func atLeast(vs []Tri, k int) Tri {
	yes, dc := 0, 0
	for _, v := range vs {
		switch v {
		case Yes:
			yes++
		case DontCare:
			dc++
		}
	}
	if yes >= k {
		return Yes
	}
	if yes+dc >= k {
		return DontCare
	}
	return No
}

type Evaluator struct {
	M mapping.IndexMapping
}

func (e *Evaluator) field(q *Q) string {
	if q.Field == "" {
		return e.M.DefaultSearchField()
	}
	return q.Field
}

func (e *Evaluator) analyse(field, text string) []Tok {
	an := e.M.AnalyzerNamed(e.M.AnalyzerNameForPath(field))
	var out []Tok
	for _, t := range an.Analyze([]byte(text)) {
		out = append(out, Tok{Term: string(t.Term), Pos: t.Position})
	}
	return out
}

func hasTerm(fv *FieldVal, term string) bool {
	if fv == nil {
		return false
	}
	for _, t := range fv.Tokens {
		if t.Term == term {
			return true
		}
	}
	return false
}

func anyTerm(fv *FieldVal, pred func(string) Tri) Tri {
	if fv == nil {
		return No
	}
	res := No
	for _, t := range fv.Tokens {
		switch pred(t.Term) {
		case Yes:
			return Yes
		case DontCare:
			res = DontCare
		}
	}
	return res
}

func lev(a, b string, transposition bool) int {
	ra, rb := []rune(a), []rune(b)
	n, m := len(ra), len(rb)
	d := make([][]int, n+1)
	for i := range d {
		d[i] = make([]int, m+1)
		d[i][0] = i
	}
	for j := 0; j <= m; j++ {
		d[0][j] = j
	}
	for i := 1; i <= n; i++ {
		for j := 1; j <= m; j++ {
			c := 1
			if ra[i-1] == rb[j-1] {
				c = 0
			}
			v := d[i-1][j] + 1
			if x := d[i][j-1] + 1; x < v {
				v = x
			}
			if x := d[i-1][j-1] + c; x < v {
				v = x
			}
			if transposition && i > 1 && j > 1 && ra[i-1] == rb[j-2] && ra[i-2] == rb[j-1] {
				if x := d[i-2][j-2] + 1; x < v {
					v = x
				}
			}
			d[i][j] = v
		}
	}
	return d[n][m]
}

// fuzzyMatch: clearly in if plain Levenshtein ≤ f, clearly out if the
// transposition-aware distance > f, the band between is don't-care (scorch's
// automaton counts a transposition as 1, upsidedown's fallback as 2).
func fuzzyMatch(term, cand string, f, plen int) Tri {
	if f == 0 {
		if term == cand {
			return Yes
		}
		return No
	}
	if plen > 0 {
		p := term
		if len(p) > plen {
			p = p[:plen]
		}
		if !strings.HasPrefix(cand, p) {
			return No
		}
	}
	if lev(term, cand, false) <= f {
		return Yes
	}
	if lev(term, cand, true) > f {
		return No
	}
	return DontCare
}

func inRange(v float64, min, max *float64, incMin, incMax *bool) bool {
	imin, imax := true, false
	if incMin != nil {
		imin = *incMin
	}
	if incMax != nil {
		imax = *incMax
	}
	if min != nil {
		if v < *min || (!imin && v == *min) {
			return false
		}
	}
	if max != nil {
		if v > *max || (!imax && v == *max) {
			return false
		}
	}
	return true
}

// phraseMatch: consecutive positions inside one array element; "" is a gap.
func phraseMatch(fv *FieldVal, terms [][]string, pred func(want, have string) Tri) Tri {
	if fv == nil {
		return No
	}
	type key struct {
		ap  string
		pos int
	}
	at := map[key][]string{}
	for _, t := range fv.Tokens {
		at[key{t.AP, t.Pos}] = append(at[key{t.AP, t.Pos}], t.Term)
	}
	res := No
	for k := range at {
		// try a phrase starting at k (position of terms[0])
		cur := Yes
		for i, alts := range terms {
			if len(alts) == 0 {
				continue // gap
			}
			best := No
			for _, have := range at[key{k.ap, k.pos + i}] {
				for _, want := range alts {
					if want == "" {
						continue
					}
					if v := pred(want, have); v > best || (v == Yes) {
						if v == Yes {
							best = Yes
						} else if best != Yes {
							best = v
						}
					}
				}
			}
			cur = and3(cur, best)
			if cur == No {
				break
			}
		}
		if cur == Yes {
			return Yes
		}
		if cur == DontCare {
			res = DontCare
		}
	}
	return res
}

// Eval returns whether the document satisfies the query.
func (e *Evaluator) Eval(q *Q, d *DocModel) Tri {
	f := e.field(q)
	fv := d.F[f]
	b2t := func(b bool) Tri {
		if b {
			return Yes
		}
		return No
	}
	switch q.Kind {
	case "term":
		return b2t(hasTerm(fv, q.Text))
	case "match":
		toks := e.analyse(f, q.Text)
		if len(toks) == 0 {
			return No
		}
		vs := make([]Tri, len(toks))
		for i, t := range toks {
			t := t
			vs[i] = anyTerm(fv, func(c string) Tri { return fuzzyMatch(t.Term, c, q.Fuzz, q.PLen) })
		}
		if q.And {
			return atLeast(vs, len(vs))
		}
		return atLeast(vs, 1)
	case "matchphrase":
		toks := e.analyse(f, q.Text)
		if len(toks) == 0 {
			return No
		}
		first, last := 1<<30, 0
		for _, t := range toks {
			if t.Pos < first {
				first = t.Pos
			}
			if t.Pos > last {
				last = t.Pos
			}
		}
		terms := make([][]string, last-first+1)
		for _, t := range toks {
			terms[t.Pos-first] = append(terms[t.Pos-first], t.Term)
		}
		return phraseMatch(fv, terms, func(w, h string) Tri { return b2t(w == h) })
	case "phrase":
		terms := make([][]string, len(q.Terms))
		for i, t := range q.Terms {
			if t != "" {
				terms[i] = []string{t}
			}
		}
		return phraseMatch(fv, terms, func(w, h string) Tri { return b2t(w == h) })
	case "prefix":
		return anyTerm(fv, func(c string) Tri { return b2t(strings.HasPrefix(c, q.Text)) })
	case "wildcard":
		var sb strings.Builder
		for _, r := range q.Text {
			switch r {
			case '*':
				sb.WriteString(".*")
			case '?':
				sb.WriteString(".")
			default:
				sb.WriteString(regexp.QuoteMeta(string(r)))
			}
		}
		re := regexp.MustCompile("^(?s:" + sb.String() + ")$")
		return anyTerm(fv, func(c string) Tri { return b2t(re.MatchString(c)) })
	case "regexp":
		re := regexp.MustCompile("^(?s:" + strings.TrimPrefix(q.Text, "^") + ")$")
		return anyTerm(fv, func(c string) Tri { return b2t(re.MatchString(c)) })
	case "fuzzy":
		return anyTerm(fv, func(c string) Tri { return fuzzyMatch(q.Text, c, q.Fuzz, q.PLen) })
	case "termrange":
		imin, imax := true, false
		if q.IncMin != nil {
			imin = *q.IncMin
		}
		if q.IncMax != nil {
			imax = *q.IncMax
		}
		return anyTerm(fv, func(c string) Tri {
			if q.MinS != "" {
				if c < q.MinS || (!imin && c == q.MinS) {
					return No
				}
			}
			if q.MaxS != "" {
				if c > q.MaxS || (!imax && c == q.MaxS) {
					return No
				}
			}
			return Yes
		})
	case "numrange":
		if fv == nil {
			return No
		}
		for _, v := range fv.Nums {
			if inRange(v, q.Min, q.Max, q.IncMin, q.IncMax) {
				return Yes
			}
		}
		return No
	case "daterange":
		if fv == nil {
			return No
		}
		var min, max *float64
		if q.Start != "" {
			v := float64(0)
			_ = v
			x := float64(parseT(q.Start).UnixNano())
			min = &x
		}
		if q.End != "" {
			x := float64(parseT(q.End).UnixNano())
			max = &x
		}
		for _, t := range fv.Dates {
			// compare on integer nanoseconds to stay exact
			n := t.UnixNano()
			ok := true
			imin, imax := true, false
			if q.IncMin != nil {
				imin = *q.IncMin
			}
			if q.IncMax != nil {
				imax = *q.IncMax
			}
			if min != nil {
				s := parseT(q.Start).UnixNano()
				if n < s || (!imin && n == s) {
					ok = false
				}
			}
			if max != nil {
				s := parseT(q.End).UnixNano()
				if n > s || (!imax && n == s) {
					ok = false
				}
			}
			if ok {
				return Yes
			}
		}
		return No
	case "boolfield":
		if fv == nil {
			return No
		}
		for _, b := range fv.Bools {
			if b == q.Bool {
				return Yes
			}
		}
		return No
	case "docid":
		for _, id := range q.IDs {
			if id == d.ID {
				return Yes
			}
		}
		return No
	case "all":
		return Yes
	case "none":
		return No
	case "conj":
		vs := make([]Tri, len(q.Kids))
		for i, k := range q.Kids {
			vs[i] = e.Eval(k, d)
		}
		return atLeast(vs, len(vs))
	case "disj":
		vs := make([]Tri, len(q.Kids))
		for i, k := range q.Kids {
			vs[i] = e.Eval(k, d)
		}
		min := q.DisjMin
		if min < 1 {
			min = 1
		}
		return atLeast(vs, min)
	case "bool":
		res := Yes
		if len(q.Must) > 0 {
			vs := make([]Tri, len(q.Must))
			for i, k := range q.Must {
				vs[i] = e.Eval(k, d)
			}
			res = and3(res, atLeast(vs, len(vs)))
		}
		if len(q.Should) > 0 {
			vs := make([]Tri, len(q.Should))
			for i, k := range q.Should {
				vs[i] = e.Eval(k, d)
			}
			if len(q.Must) == 0 {
				// without must the should clause is what selects documents
				min := q.ShouldMin
				if min < 1 {
					min = 1
				}
				res = and3(res, atLeast(vs, min))
			} else if q.ShouldMin > 0 {
				res = and3(res, atLeast(vs, q.ShouldMin))
			}
		}
		if len(q.MustNot) > 0 {
			vs := make([]Tri, len(q.MustNot))
			for i, k := range q.MustNot {
				vs[i] = e.Eval(k, d)
			}
			res = and3(res, not3(atLeast(vs, 1)))
		}
		if q.Filter != nil {
			res = and3(res, e.Eval(q.Filter, d))
		}
		return res
	}
	panic("eval: unknown kind " + q.Kind)
}

// Expected returns the ids that clearly match and those in a don't-care band.
func (e *Evaluator) Expected(q *Q, docs []*DocModel) (yes map[string]bool, dontCare map[string]bool) {
	yes, dontCare = map[string]bool{}, map[string]bool{}
	for _, d := range docs {
		switch e.Eval(q, d) {
		case Yes:
			yes[d.ID] = true
		case DontCare:
			dontCare[d.ID] = true
		}
	}
	return
}

// ---------------------------------------------------------------------------
// query generator

type QGen struct {
	G        *rng.Rand
	IDs      []string // id space (live and absent)
	NoPhrase bool
}

var textFields = []string{"title", "body", "notv", "tag"}

func (qg *QGen) word() string { return rng.Pick(qg.G, Words) }

func (qg *QGen) termFor(field string) string {
	if field == "tag" {
		return rng.Pick(qg.G, Tags)
	}
	return qg.word()
}

func fp(v float64) *float64 { return &v }
func bp(v bool) *bool       { return &v }

func (qg *QGen) optBool() *bool {
	switch qg.G.Intn(3) {
	case 0:
		return nil
	case 1:
		return bp(true)
	}
	return bp(false)
}

// Leaf generates one leaf query.
func (qg *QGen) Leaf() *Q {
	g := qg.G
	switch x := g.Intn(100); {
	case x < 22:
		f := rng.Pick(g, textFields)
		q := &Q{Kind: "term", Field: f, Text: qg.termFor(f)}
		if g.Chance(1, 8) {
			q.Field = "" // default field _all
			q.Text = qg.word()
		}
		return q
	case x < 34:
		f := rng.Pick(g, []string{"title", "body", "notv"})
		q := &Q{Kind: "match", Field: f, Text: GenSentence(g, 3), And: g.Chance(1, 3)}
		if g.Chance(1, 3) {
			q.Fuzz = g.Range(1, 2)
			if g.Bool() {
				q.PLen = g.Range(1, 3)
			}
		}
		return q
	case x < 40:
		f := rng.Pick(g, []string{"title", "body"})
		if qg.NoPhrase {
			return &Q{Kind: "term", Field: f, Text: qg.word()}
		}
		return &Q{Kind: "matchphrase", Field: f, Text: GenSentence(g, 3)}
	case x < 45:
		f := rng.Pick(g, []string{"title", "body"})
		if qg.NoPhrase {
			return &Q{Kind: "term", Field: f, Text: qg.word()}
		}
		n := g.Range(1, 3)
		ts := make([]string, n)
		for i := range ts {
			ts[i] = qg.word()
		}
		if n == 3 && g.Chance(1, 3) {
			ts[1] = ""
		}
		return &Q{Kind: "phrase", Field: f, Terms: ts}
	case x < 52:
		f := rng.Pick(g, textFields)
		w := qg.termFor(f)
		return &Q{Kind: "prefix", Field: f, Text: w[:g.Range(1, len(w))]}
	case x < 57:
		f := rng.Pick(g, textFields)
		w := qg.termFor(f)
		b := []byte(w)
		if len(b) > 1 {
			b[g.Intn(len(b))] = '?'
		}
		s := string(b)
		if g.Bool() {
			cut := g.Range(1, len(s))
			s = s[:cut] + "*"
		}
		if g.Chance(1, 4) {
			s = "*" + s
		}
		return &Q{Kind: "wildcard", Field: f, Text: s}
	case x < 62:
		f := rng.Pick(g, []string{"title", "body", "notv"})
		pats := []string{"al.*", "bet.?", "[a-d].*a", "(alpha|zeta)", "g.m+a", ".*ta", "alp[ahs]+", "k?appa|delt"}
		return &Q{Kind: "regexp", Field: f, Text: rng.Pick(g, pats)}
	case x < 68:
		f := rng.Pick(g, []string{"title", "body", "notv"})
		q := &Q{Kind: "fuzzy", Field: f, Text: qg.word(), Fuzz: g.Range(1, 2)}
		if g.Bool() {
			q.PLen = g.Range(1, 3)
		}
		return q
	case x < 73:
		f := rng.Pick(g, textFields)
		a, b := qg.termFor(f), qg.termFor(f)
		q := &Q{Kind: "termrange", Field: f, IncMin: qg.optBool(), IncMax: qg.optBool()}
		switch g.Intn(4) {
		case 0:
			q.MinS = a
		case 1:
			q.MaxS = a
		default:
			q.MinS, q.MaxS = a, b
		}
		return q
	case x < 81:
		q := &Q{Kind: "numrange", Field: "num", IncMin: qg.optBool(), IncMax: qg.optBool()}
		a, b := float64(g.Range(-6, 21)), float64(g.Range(-6, 21))
		if g.Chance(1, 4) {
			a += 0.5
		}
		switch g.Intn(5) {
		case 0:
			q.Min = fp(a)
		case 1:
			q.Max = fp(a)
		default:
			q.Min, q.Max = fp(a), fp(b)
		}
		return q
	case x < 87:
		q := &Q{Kind: "daterange", Field: "date", IncMin: qg.optBool(), IncMax: qg.optBool()}
		a := baseDate.Add(time.Duration(g.Range(-2, 42)) * 24 * time.Hour)
		b := baseDate.Add(time.Duration(g.Range(-2, 42)) * 24 * time.Hour)
		switch g.Intn(5) {
		case 0:
			q.Start = a.Format(time.RFC3339Nano)
		case 1:
			q.End = a.Format(time.RFC3339Nano)
		default:
			q.Start, q.End = a.Format(time.RFC3339Nano), b.Format(time.RFC3339Nano)
		}
		return q
	case x < 91:
		return &Q{Kind: "boolfield", Field: "flag", Bool: g.Bool()}
	case x < 96:
		n := g.Range(1, 6)
		ids := make([]string, n)
		for i := range ids {
			ids[i] = rng.Pick(g, qg.IDs)
		}
		return &Q{Kind: "docid", IDs: ids}
	case x < 99:
		return &Q{Kind: "all"}
	default:
		return &Q{Kind: "none"}
	}
}

// leafNotNone never returns match-none (used under conjunction/must, where a
// syntactic match-none child is treated specially by the constructors).
func (qg *QGen) leafNotNone() *Q {
	for {
		if q := qg.Leaf(); q.Kind != "none" {
			return q
		}
	}
}

// Tree generates a query tree of at most the given depth.
func (qg *QGen) Tree(depth int) *Q {
	return qg.tree(depth, false)
}

func (qg *QGen) tree(depth int, noNone bool) *Q {
	g := qg.G
	if depth <= 1 || g.Chance(3, 10) {
		if noNone {
			return qg.leafNotNone()
		}
		return qg.Leaf()
	}
	kids := func(lo, hi int, nn bool) []*Q {
		n := g.Range(lo, hi)
		out := make([]*Q, n)
		for i := range out {
			out[i] = qg.tree(depth-1, nn)
		}
		return out
	}
	var q *Q
	switch x := g.Intn(100); {
	case x < 30:
		q = &Q{Kind: "conj", Kids: kids(1, 4, true)}
	case x < 60:
		hi := 4
		if g.Chance(1, 8) {
			hi = 13 // cross DisjunctionHeapTakeover
		}
		ks := kids(1, hi, noNone)
		q = &Q{Kind: "disj", Kids: ks, DisjMin: g.Intn(len(ks) + 1)}
		if g.Bool() {
			q.DisjMin = g.Intn(2)
		}
	default:
		q = &Q{Kind: "bool"}
		if g.Chance(7, 10) {
			q.Must = kids(1, 3, true)
		}
		if g.Chance(6, 10) {
			q.Should = kids(1, 3, true)
			q.ShouldMin = g.Intn(len(q.Should) + 1)
		}
		if g.Chance(4, 10) {
			q.MustNot = kids(1, 2, true)
		}
		if g.Chance(2, 10) {
			q.Filter = qg.tree(depth-1, true)
		}
		if len(q.Must) == 0 && len(q.Should) == 0 && len(q.MustNot) == 0 && q.Filter == nil {
			q.Must = kids(1, 2, true)
		}
	}
	if g.Chance(1, 6) {
		q.Boost = float64(g.Range(1, 4))
	}
	return q
}

// SortedKeys is a helper for deterministic set printing.
func SortedKeys(m map[string]bool) []string {
	out := make([]string, 0, len(m))
	for k := range m {
		out = append(out, k)
	}
	sort.Strings(out)
	return out
}

var _ = index.IndexInternalID(nil)
