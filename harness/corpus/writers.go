package corpus

import (
	"fmt"
	"sort"
	"strconv"

	"github.com/blevesearch/bleve/v2/document"
	index "github.com/blevesearch/bleve_index_api"

	"verifharness/rng"
)

// Writer workloads: writer w owns the ids "w<w>m" (a marker document rewritten
// by every batch) and "w<w>i<j>"; batch k of writer w is a deterministic
// function of (seed, w, k), sets ver=k on everything it writes and sets the
// internal key "seq_w<w>" to k. LWW_w(k) is therefore computable by anyone
// who knows (seed, w, k).

func MarkerID(w int) string       { return fmt.Sprintf("w%dm", w) }
func WriterDocID(w, j int) string { return fmt.Sprintf("w%di%d", w, j) }
func SeqKey(w int) string         { return fmt.Sprintf("seq_w%d", w) }

// WriterIDs lists every id writer w may touch (marker first).
func WriterIDs(w, nIDs int) []string {
	ids := []string{MarkerID(w)}
	for j := 0; j < nIDs; j++ {
		ids = append(ids, WriterDocID(w, j))
	}
	return ids
}

// WriterBatch returns batch k (k ≥ 1) of writer w.
func WriterBatch(seed uint64, w, k, nIDs int) Batch { return WriterBatchOpt(seed, w, k, nIDs, false) }

// WriterBatchOpt is WriterBatch with an option: with wipes, about every fifth
// batch only deletes (the marker and every document of the writer) and advances
// the seq key, so it creates no new segment and can empty the newest ones.
// (Not for workloads that read the version from the marker document.)
func WriterBatchOpt(seed uint64, w, k, nIDs int, wipes bool) Batch {
	g := rng.New(seed).Derive(fmt.Sprintf("writer-%d-batch-%d", w, k))
	var b Batch
	if wipes && IsWipe(seed, w, k) {
		for _, id := range WriterIDs(w, nIDs) {
			b.Ops = append(b.Ops, Op{Kind: "delete", ID: id})
		}
		b.Ops = append(b.Ops, Op{Kind: "setint", ID: SeqKey(w), Val: strconv.Itoa(k)})
		return b
	}
	b.Ops = append(b.Ops, Op{Kind: "index", ID: MarkerID(w), Doc: &Doc{ID: MarkerID(w), Fields: map[string]any{
		"ver": float64(k), "tag": "marker",
	}}})
	for j := 0; j < nIDs; j++ {
		id := WriterDocID(w, j)
		switch x := g.Intn(15); {
		case x < 5:
			d := GenDoc(g, id)
			d.Fields["ver"] = float64(k)
			b.Ops = append(b.Ops, Op{Kind: "index", ID: id, Doc: d})
		case x < 8:
			b.Ops = append(b.Ops, Op{Kind: "delete", ID: id})
		}
	}
	b.Ops = append(b.Ops, Op{Kind: "setint", ID: SeqKey(w), Val: strconv.Itoa(k)})
	return b
}

// IsWipe tells whether batch k of writer w is a delete-only batch when wipes are on.
func IsWipe(seed uint64, w, k int) bool {
	return rng.New(seed).Derive(fmt.Sprintf("writer-%d-wipe-%d", w, k)).Chance(1, 5)
}

// WriterModel returns LWW_w(k): the state of writer w's ids after its batches 1..k.
func WriterModel(seed uint64, w, k, nIDs int) *LWW { return WriterModelOpt(seed, w, k, nIDs, false) }

func WriterModelOpt(seed uint64, w, k, nIDs int, wipes bool) *LWW {
	m := NewLWW()
	for i := 1; i <= k; i++ {
		m.Apply(WriterBatchOpt(seed, w, i, nIDs, wipes))
	}
	return m
}

// ---------------------------------------------------------------------------
// stored-field comparison helpers

func storedString(f index.Field) string {
	return fmt.Sprintf("%s|%T|%v|%x", f.Name(), f, f.ArrayPositions(), f.Value())
}

// ExpectedStored: the stored fields the mapping produces for the document
// (canonical strings, sorted).
func ExpectedStored(d *Doc) ([]string, error) {
	bd := document.NewDocument(d.ID)
	if err := Mapping().MapDocument(bd, d.Fields); err != nil {
		return nil, err
	}
	var out []string
	for _, f := range bd.Fields {
		if f.Options().IsStored() {
			out = append(out, storedString(f))
		}
	}
	sort.Strings(out)
	return out, nil
}

// ObservedStored: the stored fields a reader returned (the _id field is ignored).
func ObservedStored(d index.Document) []string {
	var out []string
	d.VisitFields(func(f index.Field) {
		if f.Name() == "_id" {
			return
		}
		out = append(out, storedString(f))
	})
	sort.Strings(out)
	return out
}
