// Package ev is the run context shared by every property check: seeded PRNG,
// case accounting, three-valued verdicts, known-finding classification,
// witness/replay files, evidence writer and the supervising parent process
// that turns a process-fatal error of the child into a witnessed violation.
package ev

import (
	"bufio"
	"encoding/json"
	"fmt"
	"hash/fnv"
	"io"
	"os"
	"os/exec"
	"path/filepath"
	"runtime/debug"
	"sort"
	"strconv"
	"strings"
	"sync"
	"sync/atomic"
	"syscall"
	"time"

	"verifharness/rng"
)

// Exit codes of vcheck.
const (
	ExitHeld      = 0
	ExitViolation = 1
	ExitBroken    = 3 // run did not observe enough / inconclusive share too high (2 is Go's own panic code)
)

type Func func(r *Run)

type entry struct {
	f     Func
	level string
}

var registry = map[string]entry{}

// Register makes a property check available as `vcheck <prop>`.
// level is the evidence level (exploration | fault_enumeration | ...).
func Register(prop, level string, f Func) {
	registry[prop] = entry{f, level}
}

type violation struct {
	Class   string `json:"class"`
	Summary string `json:"summary"`
	Replay  string `json:"replay"`
	Count   int    `json:"count"`
}

type KnownFinding struct {
	Property string          `json:"property"`
	ID       string          `json:"id"`
	Status   string          `json:"status"` // known | fixed
	Class    string          `json:"class"`
	What     string          `json:"what"`
	Commit   string          `json:"commit,omitempty"`
	Witness  json.RawMessage `json:"witness,omitempty"`
}

type Run struct {
	Prop  string
	Tier  string
	Seed  int64
	Level string
	Root  string // /verif

	// Set by the check before Finish.
	Rule        string
	Assumptions []string
	MinDistinct int // floor for distinct_nontrivial (default 2)

	mu          sync.Mutex
	rng         *rng.Rand
	start       time.Time
	evals       int
	distinct    map[uint64]struct{}
	samples     []any
	maxSamples  int
	extra       map[string]any
	counters    map[string]int
	violations  map[string]*violation
	vorder      []string
	knownHit    map[string]int
	known       []KnownFinding
	inconcl     map[string]int
	journal     *os.File
	tmp         string
	ReplayPath  string // non-empty when invoked with --replay
	exhaustive  bool
	finishHooks []func()
}

func rootDir() string {
	if v := os.Getenv("VERIF_ROOT"); v != "" {
		return v
	}
	return "/verif"
}

// Main is the entry point of cmd/vcheck.
func Main() {
	if len(os.Args) < 2 {
		fmt.Fprintln(os.Stderr, "usage: vcheck <property> [--replay file] | vcheck list")
		os.Exit(ExitBroken)
	}
	if os.Args[1] == "list" {
		var ids []string
		for k := range registry {
			ids = append(ids, k)
		}
		sort.Strings(ids)
		for _, k := range ids {
			fmt.Println(k, registry[k].level)
		}
		return
	}
	if h, ok := workers[os.Args[1]]; ok {
		// worker sub-process mode: vcheck <workername> args...
		h(os.Args[2:])
		return
	}
	prop := os.Args[1]
	e, ok := registry[prop]
	if !ok {
		fmt.Fprintf(os.Stderr, "unknown property %q\n", prop)
		os.Exit(ExitBroken)
	}
	if os.Getenv("VCHECK_CHILD") == "" && os.Getenv("VCHECK_NOSUPERVISE") == "" {
		supervise(prop, e)
		return
	}
	r := newRun(prop, e.level)
	for i := 2; i < len(os.Args); i++ {
		if os.Args[i] == "--replay" && i+1 < len(os.Args) {
			r.ReplayPath = os.Args[i+1]
			i++
		}
	}
	e.f(r)
	r.Finish()
}

var workers = map[string]func(args []string){}

// RegisterWorker registers a sub-process mode (`vcheck <name> args…`) used by
// checks that need child processes (crash tests, stress rounds).
func RegisterWorker(name string, f func(args []string)) { workers[name] = f }

func envInt(name string, def int64) int64 {
	if v := os.Getenv(name); v != "" {
		if n, err := strconv.ParseInt(v, 10, 64); err == nil {
			return n
		}
	}
	return def
}

func newRun(prop, level string) *Run {
	tier := os.Getenv("VERIF_TIER")
	if tier != "thorough" {
		tier = "quick"
	}
	r := &Run{
		Prop: prop, Tier: tier, Seed: envInt("VERIF_SEED", 1), Level: level, Root: rootDir(),
		start: time.Now(), distinct: map[uint64]struct{}{}, extra: map[string]any{},
		counters: map[string]int{}, violations: map[string]*violation{}, knownHit: map[string]int{},
		inconcl: map[string]int{}, maxSamples: 5, MinDistinct: 2,
	}
	r.rng = rng.New(uint64(r.Seed)).Derive(prop)
	_ = os.MkdirAll(filepath.Join(r.Root, "evidence", "replay"), 0o755)
	r.loadKnown()
	jp := r.journalPath()
	f, err := os.Create(jp)
	if err == nil {
		r.journal = f
	}
	return r
}

func (r *Run) journalPath() string {
	return filepath.Join(r.Root, "evidence", "replay", r.Prop+".journal")
}

func (r *Run) loadKnown() {
	b, err := os.ReadFile(filepath.Join(r.Root, "known_findings.json"))
	if err != nil {
		return
	}
	var doc struct {
		Findings []KnownFinding `json:"findings"`
	}
	if err := json.Unmarshal(b, &doc); err != nil {
		fmt.Fprintf(os.Stderr, "known_findings.json: %v\n", err)
		os.Exit(ExitBroken)
	}
	for _, k := range doc.Findings {
		if k.Property == r.Prop {
			r.known = append(r.known, k)
		}
	}
}

// Known returns the committed known-finding entries (status "known") of this property.
func (r *Run) Known() []KnownFinding {
	var out []KnownFinding
	for _, k := range r.known {
		if k.Status == "known" {
			out = append(out, k)
		}
	}
	return out
}

func (r *Run) Thorough() bool { return r.Tier == "thorough" }

// Scale picks the quick or thorough size.
func (r *Run) Scale(quick, thorough int) int {
	if r.Thorough() {
		return thorough
	}
	return quick
}

// Rng returns an independent PRNG stream for the label (deterministic in seed+prop+label).
func (r *Run) Rng(label string) *rng.Rand { return r.rng.Derive(label) }

func hashKey(s string) uint64 {
	h := fnv.New64a()
	h.Write([]byte(s))
	return h.Sum64()
}

// Case accounts for one executed case. key identifies the case for
// distinctness; nontrivial says whether it satisfies the property's stated rule.
func (r *Run) Case(key string, nontrivial bool) {
	r.mu.Lock()
	r.evals++
	if nontrivial {
		r.distinct[hashKey(key)] = struct{}{}
	}
	r.mu.Unlock()
}

// Evals adds n evaluations that are not individually hashed.
func (r *Run) Evals(n int) {
	r.mu.Lock()
	r.evals += n
	r.mu.Unlock()
}

// Sample keeps up to a handful of written-out cases for the evidence file.
func (r *Run) Sample(v any) {
	r.mu.Lock()
	if len(r.samples) < r.maxSamples {
		r.samples = append(r.samples, v)
	}
	r.mu.Unlock()
}

func (r *Run) Extra(key string, v any) {
	r.mu.Lock()
	r.extra[key] = v
	r.mu.Unlock()
}

func (r *Run) Count(key string, n int) {
	r.mu.Lock()
	r.counters[key] += n
	r.mu.Unlock()
}

func (r *Run) Counter(key string) int {
	r.mu.Lock()
	defer r.mu.Unlock()
	return r.counters[key]
}

func (r *Run) SetExhaustive(b bool) { r.exhaustive = b }

func (r *Run) Inconclusive(reason string) {
	r.mu.Lock()
	r.inconcl[reason]++
	r.mu.Unlock()
}

// Journal appends v (JSON) to the on-disk journal *before* a call that may be
// process-fatal, so the supervisor still has the witness.
func (r *Run) Journal(v any) {
	if r.journal == nil {
		return
	}
	b, err := json.Marshal(v)
	if err != nil {
		b = []byte(fmt.Sprintf("%q", fmt.Sprint(v)))
	}
	r.mu.Lock()
	r.journal.Write(append(b, '\n'))
	r.mu.Unlock()
}

// JournalReset truncates the journal (call between batches to keep it small).
func (r *Run) JournalReset() {
	if r.journal == nil {
		return
	}
	r.mu.Lock()
	r.journal.Truncate(0)
	r.journal.Seek(0, 0)
	r.mu.Unlock()
}

// TempDir returns a scratch directory removed at Finish.
func (r *Run) TempDir() string {
	r.mu.Lock()
	defer r.mu.Unlock()
	if r.tmp == "" {
		base := os.Getenv("VERIF_TMP")
		if base == "" {
			// scratch indexes are tiny and fsync-heavy; a RAM file system keeps
			// the crash and stress workloads fast (process-death consistency
			// does not depend on the medium)
			if st, err := os.Stat("/dev/shm"); err == nil && st.IsDir() {
				base = "/dev/shm"
			} else {
				base = os.TempDir()
			}
		}
		d, err := os.MkdirTemp(base, "verif-"+r.Prop+"-")
		if err != nil {
			fmt.Fprintln(os.Stderr, "tempdir:", err)
			os.Exit(ExitBroken)
		}
		r.tmp = d
	}
	return r.tmp
}

// OnFinish registers cleanup run by Finish.
func (r *Run) OnFinish(f func()) {
	r.mu.Lock()
	r.finishHooks = append(r.finishHooks, f)
	r.mu.Unlock()
}

func sanitize(s string) string {
	var b strings.Builder
	for _, c := range s {
		if c >= 'a' && c <= 'z' || c >= 'A' && c <= 'Z' || c >= '0' && c <= '9' || c == '.' || c == '-' || c == '_' {
			b.WriteRune(c)
		} else {
			b.WriteByte('_')
		}
	}
	if b.Len() > 60 {
		return b.String()[:60]
	}
	return b.String()
}

// Violation records a witnessed violation. class is a narrow syntactic class of
// the (shrunk) failing case; if a committed known finding of this property has
// the same class the case is reported as KNOWN-FINDING instead. The first
// witness of each class is written to evidence/replay.
func (r *Run) Violation(class, summary string, witness any) {
	r.mu.Lock()
	defer r.mu.Unlock()
	for _, k := range r.known {
		if k.Status == "known" && k.Class == class {
			if r.knownHit[class] == 0 {
				fmt.Printf("KNOWN-FINDING: property=%s %s [%s] %s\n", r.Prop, k.ID, class, k.What)
			}
			r.knownHit[class]++
			return
		}
	}
	v, ok := r.violations[class]
	if !ok {
		path := filepath.Join(r.Root, "evidence", "replay",
			fmt.Sprintf("%s-%s-seed%d.json", r.Prop, sanitize(class), r.Seed))
		doc := map[string]any{
			"property": r.Prop, "class": class, "summary": summary, "seed": r.Seed, "tier": r.Tier,
			"witness": witness,
		}
		b, err := json.MarshalIndent(doc, "", " ")
		if err != nil {
			b = []byte(fmt.Sprintf("%+v", doc))
		}
		_ = os.WriteFile(path, b, 0o644)
		v = &violation{Class: class, Summary: summary, Replay: path}
		r.violations[class] = v
		r.vorder = append(r.vorder, class)
		fmt.Printf("VIOLATION property=%s replay=%s\n", r.Prop, path)
		fmt.Printf("  class=%s: %s\n", class, summary)
	}
	v.Count++
}

// KnownFindingSeen is for checks that replay a committed witness directly.
func (r *Run) KnownFindingSeen(k KnownFinding) {
	r.mu.Lock()
	if r.knownHit[k.Class] == 0 {
		fmt.Printf("KNOWN-FINDING: property=%s %s [%s] %s\n", r.Prop, k.ID, k.Class, k.What)
	}
	r.knownHit[k.Class]++
	r.mu.Unlock()
}

func (r *Run) NumViolations() int {
	r.mu.Lock()
	defer r.mu.Unlock()
	return len(r.violations)
}

// Guard runs f and converts a panic into (true, value, stack).
func Guard(f func()) (panicked bool, val any, stack string) {
	defer func() {
		if x := recover(); x != nil {
			panicked, val, stack = true, x, string(debug.Stack())
		}
	}()
	f()
	return
}

type evidenceDoc struct {
	PropertyID  string         `json:"property_id"`
	Tier        string         `json:"tier"`
	Seed        int64          `json:"seed"`
	Level       string         `json:"level"`
	Coverage    map[string]any `json:"coverage"`
	Assumptions []string       `json:"assumptions,omitempty"`
	WallS       float64        `json:"wall_s"`
	Violations  int            `json:"violations"`
}

func (r *Run) writeEvidence() {
	cov := map[string]any{}
	for k, v := range r.extra {
		cov[k] = v
	}
	if len(r.counters) > 0 {
		c := map[string]int{}
		for k, v := range r.counters {
			c[k] = v
		}
		cov["counters"] = c
	}
	cov["evaluations"] = r.evals
	cov["distinct_nontrivial"] = len(r.distinct)
	cov["rule"] = r.Rule
	s := r.samples
	if s == nil {
		s = []any{}
	}
	cov["samples"] = s
	if r.exhaustive {
		cov["exhaustive"] = true
	}
	inc := 0
	for _, n := range r.inconcl {
		inc += n
	}
	cov["inconclusive"] = inc
	if inc > 0 {
		cov["inconclusive_reasons"] = r.inconcl
	}
	if len(r.knownHit) > 0 {
		cov["known_findings_seen"] = r.knownHit
	}
	if len(r.violations) > 0 {
		var vs []violation
		for _, c := range r.vorder {
			vs = append(vs, *r.violations[c])
		}
		cov["violation_classes"] = vs
	}
	doc := evidenceDoc{
		PropertyID: r.Prop, Tier: r.Tier, Seed: r.Seed, Level: r.Level, Coverage: cov,
		Assumptions: r.Assumptions, WallS: time.Since(r.start).Seconds(), Violations: len(r.violations),
	}
	b, err := json.MarshalIndent(doc, "", " ")
	if err != nil {
		// a sample that cannot be marshalled must not lose the evidence
		cov["samples"] = []any{fmt.Sprintf("%+v", r.samples)}
		b, _ = json.MarshalIndent(doc, "", " ")
	}
	path := filepath.Join(r.Root, "evidence", r.Prop+".json")
	if err := os.WriteFile(path+".tmp", b, 0o644); err == nil {
		_ = os.Rename(path+".tmp", path)
	}
}

// Finish writes the evidence file and exits with the verdict.
func (r *Run) Finish() {
	for _, f := range r.finishHooks {
		f()
	}
	if r.tmp != "" {
		_ = os.RemoveAll(r.tmp)
	}
	if r.journal != nil {
		r.journal.Close()
		_ = os.Remove(r.journalPath())
	}
	r.writeEvidence()
	inc := 0
	for _, n := range r.inconcl {
		inc += n
	}
	fmt.Printf("%s tier=%s seed=%d evaluations=%d distinct_nontrivial=%d inconclusive=%d violations=%d known=%d wall=%.1fs\n",
		r.Prop, r.Tier, r.Seed, r.evals, len(r.distinct), inc, len(r.violations), len(r.knownHit),
		time.Since(r.start).Seconds())
	if len(r.violations) > 0 {
		os.Exit(ExitViolation)
	}
	if r.ReplayPath != "" {
		os.Exit(ExitHeld)
	}
	if len(r.distinct) < r.MinDistinct {
		fmt.Printf("BROKEN-RUN property=%s observed only %d distinct non-trivial cases (floor %d)\n",
			r.Prop, len(r.distinct), r.MinDistinct)
		os.Exit(ExitBroken)
	}
	if r.evals > 0 && inc*5 > r.evals {
		fmt.Printf("BROKEN-RUN property=%s inconclusive share %d/%d exceeds 20%%\n", r.Prop, inc, r.evals)
		os.Exit(ExitBroken)
	}
	os.Exit(ExitHeld)
}

// ---------------------------------------------------------------------------
// supervisor

func tail(path string, n int) string {
	f, err := os.Open(path)
	if err != nil {
		return ""
	}
	defer f.Close()
	st, _ := f.Stat()
	if st.Size() > int64(n) {
		f.Seek(-int64(n), io.SeekEnd)
	}
	b, _ := io.ReadAll(f)
	return string(b)
}

func supervise(prop string, e entry) {
	root := rootDir()
	_ = os.MkdirAll(filepath.Join(root, "evidence", "replay"), 0o755)
	_ = os.MkdirAll(filepath.Join(root, "evidence", "logs"), 0o755)
	start := time.Now()
	tier := os.Getenv("VERIF_TIER")
	if tier != "thorough" {
		tier = "quick"
	}
	seed := envInt("VERIF_SEED", 1)
	wd := envInt("VERIF_WATCHDOG_S", 0)
	if wd == 0 {
		if tier == "thorough" {
			wd = 6 * 3600
		} else {
			wd = 1800
		}
	}
	errPath := filepath.Join(root, "evidence", "logs", prop+".stderr")
	errFile, err := os.Create(errPath)
	if err != nil {
		fmt.Fprintln(os.Stderr, err)
		os.Exit(ExitBroken)
	}
	cmd := exec.Command(os.Args[0], os.Args[1:]...)
	cmd.Env = append(os.Environ(), "VCHECK_CHILD=1", "GOTRACEBACK=all")
	// pass the child's stdout through, remembering whether it reported a violation
	var sawViolation atomic.Bool
	pr, pw, perr := os.Pipe()
	if perr != nil {
		fmt.Fprintln(os.Stderr, perr)
		os.Exit(ExitBroken)
	}
	cmd.Stdout = pw
	cmd.Stderr = errFile
	cmd.SysProcAttr = &syscall.SysProcAttr{Setpgid: true}
	copied := make(chan struct{})
	go func() {
		defer close(copied)
		sc := bufio.NewScanner(pr)
		sc.Buffer(make([]byte, 1<<20), 64<<20)
		for sc.Scan() {
			l := sc.Text()
			if strings.HasPrefix(l, "VIOLATION property=") {
				sawViolation.Store(true)
			}
			fmt.Println(l)
		}
	}()
	if err := cmd.Start(); err != nil {
		fmt.Fprintln(os.Stderr, err)
		os.Exit(ExitBroken)
	}
	done := make(chan error, 1)
	go func() { done <- cmd.Wait() }()
	timedOut := false
	select {
	case err = <-done:
	case <-time.After(time.Duration(wd) * time.Second):
		timedOut = true
		_ = cmd.Process.Signal(syscall.SIGQUIT)
		select {
		case err = <-done:
		case <-time.After(20 * time.Second):
			_ = syscall.Kill(-cmd.Process.Pid, syscall.SIGKILL)
			err = <-done
		}
	}
	// make sure no grandchild survives
	_ = syscall.Kill(-cmd.Process.Pid, syscall.SIGKILL)
	pw.Close()
	select {
	case <-copied:
	case <-time.After(5 * time.Second):
	}
	errFile.Close()
	if timedOut && sawViolation.Load() {
		// the child had already witnessed and printed a violation before it got stuck
		fmt.Printf("NOTE property=%s watchdog fired after %ds, after the violation(s) above were reported; stderr in %s\n", prop, wd, errPath)
		os.Exit(ExitViolation)
	}
	if timedOut {
		fmt.Printf("BROKEN-RUN property=%s watchdog fired after %ds (inconclusive, not a violation); stderr in %s\n", prop, wd, errPath)
		os.Exit(ExitBroken)
	}
	code := 0
	if err != nil {
		if ee, ok := err.(*exec.ExitError); ok {
			code = ee.ExitCode()
		} else {
			code = -1
		}
	}
	switch code {
	case ExitHeld, ExitViolation:
		if st, _ := os.Stat(errPath); st != nil && st.Size() == 0 {
			_ = os.Remove(errPath)
		}
		os.Exit(code)
	case ExitBroken:
		fmt.Fprint(os.Stderr, tail(errPath, 4000))
		os.Exit(ExitBroken)
	}
	// The child died (runtime fatal error, uncaught panic in a goroutine of the
	// system under test, signal). That is a witnessed violation: the journal holds
	// the inputs in flight.
	jp := filepath.Join(root, "evidence", "replay", prop+".journal")
	var lines []string
	if f, err := os.Open(jp); err == nil {
		sc := bufio.NewScanner(f)
		sc.Buffer(make([]byte, 1<<20), 64<<20)
		for sc.Scan() {
			lines = append(lines, sc.Text())
		}
		f.Close()
	}
	n := len(lines)
	if len(lines) > 50 {
		lines = lines[len(lines)-50:]
	}
	st := tail(errPath, 60000)
	headline := ""
	for _, l := range strings.Split(st, "\n") {
		if strings.HasPrefix(l, "panic:") || strings.HasPrefix(l, "fatal error:") || strings.Contains(l, "WARNING: DATA RACE") {
			headline = l
			break
		}
	}
	replay := filepath.Join(root, "evidence", "replay", fmt.Sprintf("%s-process-death-seed%d.json", prop, seed))
	doc := map[string]any{
		"property": prop, "class": "process-death", "seed": seed, "tier": tier, "exit": code,
		"headline": headline, "journal_tail": lines, "stderr_tail": st,
	}
	b, _ := json.MarshalIndent(doc, "", " ")
	_ = os.WriteFile(replay, b, 0o644)
	evd := evidenceDoc{
		PropertyID: prop, Tier: tier, Seed: seed, Level: e.level,
		Coverage: map[string]any{
			"evaluations": n, "distinct_nontrivial": 0,
			"rule":    "child process died; counts are journal entries written before death",
			"samples": []any{headline},
		},
		WallS: time.Since(start).Seconds(), Violations: 1,
	}
	b, _ = json.MarshalIndent(evd, "", " ")
	_ = os.WriteFile(filepath.Join(root, "evidence", prop+".json"), b, 0o644)
	fmt.Printf("VIOLATION property=%s replay=%s\n", prop, replay)
	fmt.Printf("  class=process-death exit=%d %s\n", code, headline)
	os.Exit(ExitViolation)
}
