module verifharness

go 1.25.0

require (
	github.com/anishathalye/porcupine v1.3.0
	github.com/blevesearch/bleve/v2 v2.0.0-00010101000000-000000000000
)

replace github.com/blevesearch/bleve/v2 => /repo
