package mon

import (
	"bytes"
	"runtime"
	"sort"
	"strconv"
	"strings"
	"sync"
	"sync/atomic"
	"time"

	"github.com/blevesearch/bleve/v2/index/scorch"
)

// Gate turns chosen hook points into gates: a goroutine reaching one blocks
// until the scheduler releases it. It also tracks, from the hook stream alone,
// whether each actor of the indexing pipeline (writers, introducer, persister,
// merger) is running, idle or gated, so that the scheduler can recognise a
// quiescent state. No dispatch logic of bleve is replaced: only the moment at
// which a sender may proceed is chosen.
type Gate struct {
	mu      sync.Mutex
	gated   map[string]bool
	waiters map[int]*Waiter
	nextID  int
	actors  map[string]string // actor → state ("running", "idle", "gated:<point>", "blocked:<why>")
	pass    atomic.Bool
	events  atomic.Uint64
	order   []string // released gate points in order (the schedule)
	intro   []string // introducer-level event order (segment/persist/merge)
}

type Waiter struct {
	ID    int
	Point string
	Actor string
	ch    chan struct{}
}

func NewGate(points ...string) *Gate {
	g := &Gate{gated: map[string]bool{}, waiters: map[int]*Waiter{}, actors: map[string]string{}}
	for _, p := range points {
		g.gated[p] = true
	}
	return g
}

// goid returns the current goroutine id (used to tell writer goroutines apart).
func goid() int {
	var buf [64]byte
	b := buf[:runtime.Stack(buf[:], false)]
	b = bytes.TrimPrefix(b, []byte("goroutine "))
	if i := bytes.IndexByte(b, ' '); i > 0 {
		n, _ := strconv.Atoi(string(b[:i]))
		return n
	}
	return -1
}

// actorOf maps a hook point to the pipeline actor that executes it.
func actorOf(base string) string {
	switch {
	case strings.HasPrefix(base, "batch."):
		return "writer#" + strconv.Itoa(goid())
	case strings.HasPrefix(base, "intro."):
		return "introducer"
	case strings.HasPrefix(base, "persist.memmerge.fileWritten"):
		return "" // worker goroutine of the persister; not tracked separately
	case strings.HasPrefix(base, "persist."), strings.HasPrefix(base, "purge."):
		return "persister"
	case strings.HasPrefix(base, "merge."):
		return "merger"
	case strings.HasPrefix(base, "copy."):
		return "copier#" + strconv.Itoa(goid())
	case strings.HasPrefix(base, "close."):
		return "closer"
	}
	return ""
}

// WriterCalling must be called by a harness writer goroutine right before it
// calls Batch (so the scheduler knows a writer is on its way to the gate), and
// WriterReturned right after Batch returned.
func (g *Gate) WriterCalling() {
	g.mu.Lock()
	g.actors["writer#"+strconv.Itoa(goid())] = "running"
	g.mu.Unlock()
	g.events.Add(1)
}

func (g *Gate) WriterReturned() {
	g.mu.Lock()
	delete(g.actors, "writer#"+strconv.Itoa(goid()))
	g.mu.Unlock()
	g.events.Add(1)
}

// ActorCalling / ActorReturned do the same for other harness goroutines that
// call into the index (copiers, force-merge requesters).
func (g *Gate) ActorCalling(name string) {
	g.mu.Lock()
	g.actors[name] = "running"
	g.mu.Unlock()
	g.events.Add(1)
}

func (g *Gate) ActorBlocked(name, why string) {
	g.mu.Lock()
	g.actors[name] = "blocked:" + why
	g.mu.Unlock()
	g.events.Add(1)
}

func (g *Gate) ActorReturned(name string) {
	g.mu.Lock()
	delete(g.actors, name)
	g.mu.Unlock()
	g.events.Add(1)
}

// Handler is the dispatcher handler implementing the gates.
func (g *Gate) Handler() Handler {
	return func(s *scorch.Scorch, point string, occ int) {
		base := Base(point)
		g.events.Add(1)
		actor := actorOf(base)
		g.mu.Lock()
		switch base {
		case "intro.idle", "persist.idle", "merge.idle":
			g.actors[actor] = "idle"
		case "batch.applied":
			// in safe mode the writer now waits for the persister
			g.actors[actor] = "blocked:persisted"
		case "intro.segment.afterSwap":
			g.intro = append(g.intro, "segment")
			g.actors[actor] = "running"
		case "intro.persist.afterSwap":
			g.intro = append(g.intro, "persist")
			g.actors[actor] = "running"
		case "intro.merge.afterSwap":
			g.intro = append(g.intro, "merge")
			g.actors[actor] = "running"
		default:
			if actor != "" && !LockedPoint(base) {
				g.actors[actor] = "running"
			}
		}
		if !g.gated[base] || g.pass.Load() || LockedPoint(base) {
			g.mu.Unlock()
			return
		}
		w := &Waiter{ID: g.nextID, Point: base, Actor: actor, ch: make(chan struct{})}
		g.nextID++
		g.waiters[w.ID] = w
		if actor != "" {
			g.actors[actor] = "gated:" + base
		}
		g.mu.Unlock()
		<-w.ch
		g.mu.Lock()
		if actor != "" {
			g.actors[actor] = "running"
		}
		g.mu.Unlock()
		g.events.Add(1)
	}
}

// Snapshot of the scheduler-visible state.
type Status struct {
	Waiters []Waiter
	Actors  map[string]string
	Strict  bool // every known actor is idle, gated or blocked
}

func (g *Gate) status() Status {
	g.mu.Lock()
	defer g.mu.Unlock()
	st := Status{Actors: map[string]string{}, Strict: true}
	for _, w := range g.waiters {
		st.Waiters = append(st.Waiters, Waiter{ID: w.ID, Point: w.Point, Actor: w.Actor})
	}
	sort.Slice(st.Waiters, func(i, j int) bool { return st.Waiters[i].ID < st.Waiters[j].ID })
	for a, s := range g.actors {
		st.Actors[a] = s
		if s == "running" {
			st.Strict = false
		}
	}
	return st
}

// WaitQuiescent blocks until the pipeline is quiescent: strictly (all actors
// idle/gated/blocked and no hook event during `stable` consecutive polls) or,
// after `fallback`, heuristically (no hook event at all for that long). It
// returns ok=false on timeout.
func (g *Gate) WaitQuiescent(poll time.Duration, stable int, fallback, timeout time.Duration) (st Status, strict, ok bool) {
	start := time.Now()
	last := g.events.Load()
	lastChange := time.Now()
	same := 0
	for {
		time.Sleep(poll)
		cur := g.events.Load()
		if cur != last {
			last, same, lastChange = cur, 0, time.Now()
		} else {
			same++
		}
		st = g.status()
		if st.Strict && same >= stable {
			// re-check that nothing moved while we looked
			if g.events.Load() == cur {
				return st, true, true
			}
		}
		if time.Since(lastChange) > fallback {
			return st, false, true
		}
		if time.Since(start) > timeout {
			return st, false, false
		}
	}
}

// Release lets the waiter proceed.
func (g *Gate) Release(id int) {
	g.mu.Lock()
	w := g.waiters[id]
	if w != nil {
		delete(g.waiters, id)
		g.order = append(g.order, w.Point)
		if w.Actor != "" {
			g.actors[w.Actor] = "running"
		}
	}
	g.mu.Unlock()
	if w != nil {
		g.events.Add(1)
		close(w.ch)
	}
}

// Open makes every gate pass-through and releases all waiters (end of scenario).
func (g *Gate) Open() {
	g.pass.Store(true)
	g.mu.Lock()
	ws := g.waiters
	g.waiters = map[int]*Waiter{}
	g.mu.Unlock()
	for _, w := range ws {
		close(w.ch)
	}
	g.events.Add(1)
}

// Schedule returns the released gate points in order; IntroOrder the order of
// introducer swaps (segment/persist/merge) observed.
func (g *Gate) Schedule() []string {
	g.mu.Lock()
	defer g.mu.Unlock()
	return append([]string(nil), g.order...)
}

func (g *Gate) IntroOrder() []string {
	g.mu.Lock()
	defer g.mu.Unlock()
	return append([]string(nil), g.intro...)
}

// CurrentWriterActor is the actor name under which the calling goroutine's
// batch.* hook points are tracked.
func CurrentWriterActor() string { return "writer#" + strconv.Itoa(goid()) }

// WaitStatus returns the current status without waiting.
func (g *Gate) WaitStatus() Status { return g.status() }

// CurrentActor returns the goroutine-specific actor name for a harness
// goroutine of the given kind ("copier", "writer"); hook points executed by
// that goroutine are tracked under the same name.
func CurrentActor(kind string) string { return kind + "#" + strconv.Itoa(goid()) }
