// Package mon is the hook dispatcher for the verif-tagged points in
// /repo/index/scorch: it records every point, counts occurrences and applies
// the active policies (seeded delay, crash at the n-th occurrence, assertion,
// gate). It is keyed by the *scorch.Scorch instance so that a second index
// opened in the same process (a reopened image, a backup destination) runs
// unhooked.
package mon

import (
	"os"
	"runtime"
	"strings"
	"sync"
	"sync/atomic"
	"syscall"
	"time"

	"github.com/blevesearch/bleve/v2"
	"github.com/blevesearch/bleve/v2/index/scorch"

	"verifharness/rng"
)

// Base strips the argument of a parametrised point ("purge.zap.beforeRemove:file").
func Base(point string) string {
	if i := strings.IndexByte(point, ':'); i >= 0 {
		return point[:i]
	}
	return point
}

// Arg returns the argument of a parametrised point.
func Arg(point string) string {
	if i := strings.IndexByte(point, ':'); i >= 0 {
		return point[i+1:]
	}
	return ""
}

// LockedPoint says whether the point runs with scorch's rootLock held (only
// record / assert / crash are allowed there).
func LockedPoint(base string) bool {
	return strings.HasPrefix(base, "purge.zap.")
}

type Handler func(s *scorch.Scorch, point string, occ int)

type Dispatcher struct {
	mu       sync.Mutex
	counts   map[string]int
	trace    []string
	traceOn  func(base string) bool
	traceMax int
	handlers []Handler

	armed  atomic.Bool
	target atomic.Pointer[scorch.Scorch] // nil = every instance
	seq    atomic.Uint64
}

func New() *Dispatcher {
	return &Dispatcher{counts: map[string]int{}, traceMax: 100000}
}

var (
	installOnce sync.Once
	byInstance  sync.Map                   // *scorch.Scorch → *Dispatcher
	wildcard    atomic.Pointer[Dispatcher] // dispatcher armed for every instance
)

// Install registers the process-wide hook (once). Points of an index instance
// go to the dispatcher armed for that instance, else to the wildcard
// dispatcher, else nowhere — so several scenarios can run in one process.
func (d *Dispatcher) Install() {
	installOnce.Do(func() {
		f := func(s *scorch.Scorch, point string) {
			if v, ok := byInstance.Load(s); ok {
				v.(*Dispatcher).at(s, point)
				return
			}
			if w := wildcard.Load(); w != nil {
				w.at(s, point)
			}
		}
		scorch.VerifHook.Store(&f)
	})
}

// ScorchOf returns the scorch instance behind a bleve index (nil if not scorch).
func ScorchOf(idx bleve.Index) *scorch.Scorch {
	adv, err := idx.Advanced()
	if err != nil {
		return nil
	}
	s, _ := adv.(*scorch.Scorch)
	return s
}

// Arm starts dispatching for the given instance (nil = every instance that has
// no dispatcher of its own).
func (d *Dispatcher) Arm(target *scorch.Scorch) {
	if old := d.target.Load(); old != nil {
		byInstance.Delete(old)
	}
	d.target.Store(target)
	if target == nil {
		wildcard.Store(d)
	} else {
		byInstance.Store(target, d)
	}
	d.armed.Store(true)
}

func (d *Dispatcher) Disarm() {
	d.armed.Store(false)
	if t := d.target.Load(); t != nil {
		byInstance.Delete(t)
	} else {
		wildcard.CompareAndSwap(d, nil)
	}
}

// Add registers a handler; handlers run in registration order, outside d's mutex.
func (d *Dispatcher) Add(h Handler) {
	d.mu.Lock()
	d.handlers = append(d.handlers, h)
	d.mu.Unlock()
}

// TraceIf keeps the ordered list of base names for which keep returns true.
func (d *Dispatcher) TraceIf(keep func(base string) bool) {
	d.mu.Lock()
	d.traceOn = keep
	d.mu.Unlock()
}

func (d *Dispatcher) at(s *scorch.Scorch, point string) {
	if !d.armed.Load() {
		return
	}
	base := Base(point)
	d.mu.Lock()
	d.counts[base]++
	occ := d.counts[base]
	if d.traceOn != nil && d.traceOn(base) && len(d.trace) < d.traceMax {
		d.trace = append(d.trace, base)
	}
	hs := d.handlers
	d.mu.Unlock()
	for _, h := range hs {
		h(s, point, occ)
	}
}

func (d *Dispatcher) Counts() map[string]int {
	d.mu.Lock()
	defer d.mu.Unlock()
	out := make(map[string]int, len(d.counts))
	for k, v := range d.counts {
		out[k] = v
	}
	return out
}

func (d *Dispatcher) Trace() []string {
	d.mu.Lock()
	defer d.mu.Unlock()
	return append([]string(nil), d.trace...)
}

// CrashAt kills the process (SIGKILL, nothing runs afterwards, no deferred
// function, no flush) at the occ-th occurrence of the base point. before is
// called first (e.g. to append a line to a journal with write(2)).
func CrashAt(base string, occ int, before func()) Handler {
	return func(s *scorch.Scorch, point string, n int) {
		if Base(point) == base && n == occ {
			if before != nil {
				before()
			}
			_ = syscall.Kill(os.Getpid(), syscall.SIGKILL)
			select {} // never proceed past the crash point
		}
	}
}

// Delay perturbs the schedule: with probability num/den sleeps 0..maxMicros µs
// (or just yields) at points that run outside rootLock.
func Delay(g *rng.Rand, num, den, maxMicros int) Handler {
	var mu sync.Mutex
	return func(s *scorch.Scorch, point string, n int) {
		if LockedPoint(Base(point)) {
			return
		}
		mu.Lock()
		hit := g.Chance(num, den)
		us := 0
		if hit {
			us = g.Intn(maxMicros + 1)
		}
		mu.Unlock()
		if !hit {
			return
		}
		if us < 20 {
			runtime.Gosched()
			return
		}
		time.Sleep(time.Duration(us) * time.Microsecond)
	}
}
