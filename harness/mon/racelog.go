package mon

import (
	"os"
	"path/filepath"
	"regexp"
	"sort"
	"strings"
)

// RaceReport is one "WARNING: DATA RACE" block of a race-detector log.
type RaceReport struct {
	Text    string
	InBleve bool   // some frame is in github.com/blevesearch/... (the system under test)
	Key     string // de-duplication key: the sorted pair of outermost bleve functions + the accessed functions, line numbers stripped
}

var frameRe = regexp.MustCompile(`(?m)^  ([^\s(]+)\(\)`)

// ParseRaceLogs reads every file matching prefix.* (GORACE log_path=prefix)
// and returns the report blocks. Reports whose stacks never enter bleve code
// are races inside the harness itself: they are returned with InBleve=false
// and must be treated as a broken monitor, not as a violation.
func ParseRaceLogs(prefix string) []RaceReport {
	var out []RaceReport
	files, _ := filepath.Glob(prefix + ".*")
	sort.Strings(files)
	for _, f := range files {
		b, err := os.ReadFile(f)
		if err != nil {
			continue
		}
		out = append(out, ParseRaceText(string(b))...)
	}
	return out
}

func ParseRaceText(s string) []RaceReport {
	var out []RaceReport
	for _, blk := range strings.Split(s, "==================") {
		if !strings.Contains(blk, "WARNING: DATA RACE") {
			continue
		}
		rr := RaceReport{Text: strings.TrimSpace(blk)}
		var bleveFrames []string
		for _, m := range frameRe.FindAllStringSubmatch(blk, -1) {
			if strings.Contains(m[1], "github.com/blevesearch/") || strings.Contains(m[1], "go.etcd.io/bbolt") || strings.Contains(m[1], "github.com/couchbase/") || strings.Contains(m[1], "github.com/RoaringBitmap/") {
				bleveFrames = append(bleveFrames, m[1])
			}
		}
		rr.InBleve = len(bleveFrames) > 0
		seen := map[string]bool{}
		var uniq []string
		for _, f := range bleveFrames {
			if !seen[f] {
				seen[f] = true
				uniq = append(uniq, f)
			}
		}
		sort.Strings(uniq)
		if len(uniq) > 4 {
			uniq = uniq[:4]
		}
		rr.Key = strings.Join(uniq, " | ")
		out = append(out, rr)
	}
	return out
}
