// Package rng is the single seeded PRNG (splitmix64) every generator, delay
// and fault choice in the harness draws from. No wall clock, no global state.
package rng

import "hash/fnv"

type Rand struct{ s uint64 }

func New(seed uint64) *Rand { return &Rand{s: seed} }

// Derive returns an independent stream keyed by a label, so adding draws to
// one generator does not shift the values seen by another.
func (r *Rand) Derive(label string) *Rand {
	h := fnv.New64a()
	h.Write([]byte(label))
	return &Rand{s: mix(r.s ^ h.Sum64())}
}

// Fork returns an independent stream and advances r.
func (r *Rand) Fork() *Rand { return &Rand{s: mix(r.Uint64())} }

func mix(z uint64) uint64 {
	z = (z ^ (z >> 30)) * 0xbf58476d1ce4e5b9
	z = (z ^ (z >> 27)) * 0x94d049bb133111eb
	return z ^ (z >> 31)
}

func (r *Rand) Uint64() uint64 {
	r.s += 0x9e3779b97f4a7c15
	return mix(r.s)
}

func (r *Rand) State() uint64 { return r.s }

// Intn returns a value in [0,n). n<=0 returns 0.
func (r *Rand) Intn(n int) int {
	if n <= 0 {
		return 0
	}
	return int(r.Uint64() % uint64(n))
}

// Range returns a value in [lo,hi] inclusive.
func (r *Rand) Range(lo, hi int) int {
	if hi <= lo {
		return lo
	}
	return lo + r.Intn(hi-lo+1)
}

func (r *Rand) Bool() bool { return r.Uint64()&1 == 1 }

// Chance is true with probability num/den.
func (r *Rand) Chance(num, den int) bool { return r.Intn(den) < num }

func (r *Rand) Float64() float64 { return float64(r.Uint64()>>11) / (1 << 53) }

func (r *Rand) Perm(n int) []int {
	p := make([]int, n)
	for i := range p {
		p[i] = i
	}
	for i := n - 1; i > 0; i-- {
		j := r.Intn(i + 1)
		p[i], p[j] = p[j], p[i]
	}
	return p
}

func Pick[T any](r *Rand, xs []T) T { return xs[r.Intn(len(xs))] }

func Shuffle[T any](r *Rand, xs []T) {
	for i := len(xs) - 1; i > 0; i-- {
		j := r.Intn(i + 1)
		xs[i], xs[j] = xs[j], xs[i]
	}
}

// Subset returns each element with probability num/den, order preserved.
func Subset[T any](r *Rand, xs []T, num, den int) []T {
	var out []T
	for _, x := range xs {
		if r.Chance(num, den) {
			out = append(out, x)
		}
	}
	return out
}

func (r *Rand) Bytes(n int) []byte {
	b := make([]byte, n)
	for i := range b {
		b[i] = byte(r.Uint64())
	}
	return b
}
