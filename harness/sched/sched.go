// Package sched runs a small multi-writer scenario against a real scorch index
// under the gate scheduler (mon.Gate): at every quiescent point it hands
// control to an observer (the oracle) and then releases exactly one gated
// actor chosen by the seeded PRNG. The order in which writers are released
// from batch.beforeIntro *is* the order in which their batches are introduced,
// so the observer knows the exact expected state at every quiescent point.
package sched

import (
	"fmt"
	"os"
	"sort"
	"strings"
	"sync"
	"time"

	"github.com/blevesearch/bleve/v2"
	"github.com/blevesearch/bleve/v2/index/scorch"

	"verifharness/corpus"
	"verifharness/mon"
	"verifharness/rng"
)

// DefaultGates are the introducer-level gates of DESIGN §4.4.
var DefaultGates = []string{
	"batch.beforeIntro", "persist.direct.beforeIntro", "persist.memmerge.beforeIntro", "merge.beforeIntro", "purge.begin",
}

// ImageGates add the windows between "file written", "snapshot committed" and "purge".
var ImageGates = append(append([]string{}, DefaultGates...),
	"persist.direct.beforeCommit", "persist.direct.afterCommit", "merge.task.fileWritten", "persist.gotSnapshot")

type BatchRef struct {
	W, K int // writer, 1-based batch number of that writer
}

type Scenario struct {
	Dir     string
	KV      map[string]any
	Writers [][]corpus.Batch // per writer, in submission order
	Gates   []string
	G       *rng.Rand
	// MaxSteps bounds the number of releases; afterwards gates open.
	MaxSteps int
	// Extra goroutines started once the index is armed (copiers etc.). They must
	// bracket their calls with Gate.ActorCalling / ActorReturned.
	Extra []func(r *Runner)
	// Policy biases the choice among the gated actors ("" = uniform):
	//   "starve-merger"    a merge.* waiter is released only when nothing else waits
	//   "starve-persister" a persist.* waiter is released only when nothing else waits
	//   "starve-purger"    a purge.* waiter is released only when nothing else waits
	//   "starve-copier"    a copy.* waiter is released only when nothing else waits (the copy stays open)
	//   "writers-first"    batch.* waiters are released before anything else
	//   "writers-last"     batch.* waiters are released only when nothing else waits
	// Every policy still only chooses among actors that are really waiting, so each
	// schedule it produces is one the system can exhibit.
	Policy string
	// Choose, when set, overrides Policy: it picks the waiter to release.
	Choose func(ws []mon.Waiter, g *rng.Rand) mon.Waiter
	// ChooseR, when set, overrides Choose and Policy; it also sees the runner (to name
	// writers by their batch) and whether the point is strictly quiescent.
	ChooseR func(r *Runner, st mon.Status, strict bool) mon.Waiter
	// Handlers are extra hook handlers (assertions, recorders) installed before the gate handler.
	Handlers []mon.Handler
	// AfterOpen is called once the controlled part is over and the gates are
	// open (the observer is not called any more); e.g. to end the Extra goroutines.
	AfterOpen func(r *Runner)
}

type Runner struct {
	Sc    *Scenario
	Idx   bleve.Index
	S     *scorch.Scorch
	Gate  *mon.Gate
	Disp  *mon.Dispatcher
	Model *corpus.LWW // replay of the released batches (valid at strict quiescent points)

	mu        sync.Mutex
	current   map[string]BatchRef // actor → batch it is submitting
	Released  []BatchRef
	Acked     map[BatchRef]bool
	Submitted map[BatchRef]bool
	Errors    []string
	extraWG   sync.WaitGroup
	Steps     int
	Heuristic int // quiescent points recognised only by the fallback
}

// Observer is called at every quiescent point, before the next release.
// strict = every actor is idle/gated/blocked (no write in flight).
type Observer func(r *Runner, st mon.Status, strict bool)

type Result struct {
	Steps      int
	Heuristic  int
	Schedule   []string
	IntroOrder []string
	TimedOut   bool
	Errors     []string
}

// Run executes the scenario. obs may be nil. final is called after all writers
// returned and the gates were opened, before Close.
func Run(sc *Scenario, obs Observer, final func(r *Runner)) (*Result, error) {
	d := mon.New()
	d.Install()
	gates := sc.Gates
	if gates == nil {
		gates = DefaultGates
	}
	gate := mon.NewGate(gates...)
	for _, h := range sc.Handlers {
		d.Add(h)
	}
	d.Add(gate.Handler())
	_ = os.RemoveAll(sc.Dir)
	kv := map[string]any{}
	for k, v := range sc.KV {
		kv[k] = v
	}
	// hooks are pass-through while the index is being created (creation runs a batch)
	idx, err := bleve.NewUsing(sc.Dir, corpus.Mapping(), scorch.Name, scorch.Name, kv)
	if err != nil {
		return nil, err
	}
	r := &Runner{Sc: sc, Idx: idx, S: mon.ScorchOf(idx), Gate: gate, Disp: d, Model: corpus.NewLWW(),
		current: map[string]BatchRef{}, Acked: map[BatchRef]bool{}, Submitted: map[BatchRef]bool{}}
	d.Arm(r.S)

	var wg sync.WaitGroup
	for w := range sc.Writers {
		wg.Add(1)
		go func(w int) {
			defer wg.Done()
			for k, b := range sc.Writers[w] {
				ref := BatchRef{w, k + 1}
				gate.WriterCalling()
				actor := mon.CurrentWriterActor()
				r.mu.Lock()
				r.current[actor] = ref
				r.Submitted[ref] = true
				r.mu.Unlock()
				err := corpus.ApplyBatch(idx, b)
				r.mu.Lock()
				if err != nil {
					r.Errors = append(r.Errors, fmt.Sprintf("batch %v: %v", ref, err))
				} else {
					r.Acked[ref] = true
				}
				r.mu.Unlock()
				gate.WriterReturned()
			}
		}(w)
	}
	for _, f := range sc.Extra {
		r.extraWG.Add(1)
		go func(f func(*Runner)) {
			defer r.extraWG.Done()
			f(r)
		}(f)
	}
	writersDone := make(chan struct{})
	go func() { wg.Wait(); close(writersDone) }()

	res := &Result{}
	idleRounds := 0
	batchReleases, stalls, skips := 0, 0, 0
	for r.Steps < sc.MaxSteps {
		st, strict, ok := gate.WaitQuiescent(150*time.Microsecond, 3, 60*time.Millisecond, 30*time.Second)
		if !ok {
			res.TimedOut = true
			break
		}
		if !strict {
			r.Heuristic++
			// A point recognised only by the fallback (no hook event for a while — on a loaded machine a
			// goroutine may simply not have been scheduled) must not be used to release anything while a
			// released batch is still on its way to the introducer: the next batch could overtake it and the
			// release order would no longer be the introduction order the exact-state model assumes.
			segs := 0
			for _, k := range gate.IntroOrder() {
				if k == "segment" {
					segs++
				}
			}
			if segs < batchReleases {
				stalls++
				if stalls > 20000 {
					res.TimedOut = true
					break
				}
				continue
			}
		}
		if obs != nil {
			obs(r, st, strict)
		}
		if len(st.Waiters) == 0 {
			idleRounds++
			done := false
			select {
			case <-writersDone:
				done = true
			default:
			}
			if done && idleRounds >= 2 {
				break
			}
			if idleRounds > 200 {
				res.TimedOut = true
				break
			}
			continue
		}
		idleRounds = 0
		var pick mon.Waiter
		if sc.ChooseR != nil {
			pick = sc.ChooseR(r, st, strict)
		} else if sc.Choose != nil {
			pick = sc.Choose(st.Waiters, sc.G)
		} else {
			pick = choose(sc.Policy, st.Waiters, sc.G)
		}
		if pick.ID < 0 {
			// the chooser wants to wait for an actor that has been asked to act but has not reached a gate yet
			skips++
			if skips > 20000 {
				res.TimedOut = true
				break
			}
			continue
		}
		if pick.Point == "batch.beforeIntro" {
			batchReleases++
			r.mu.Lock()
			ref, ok := r.current[pick.Actor]
			if ok {
				r.Released = append(r.Released, ref)
				r.Model.Apply(sc.Writers[ref.W][ref.K-1])
			}
			r.mu.Unlock()
		}
		gate.Release(pick.ID)
		r.Steps++
	}
	// end of the controlled part: open the gates; writers still gated now are
	// introduced in an order we no longer control, so the exact model is dropped.
	remaining := gate.WaitStatus()
	uncontrolled := false
	for _, w := range remaining.Waiters {
		if w.Point == "batch.beforeIntro" {
			uncontrolled = true
		}
	}
	select {
	case <-writersDone:
	default:
		uncontrolled = true
	}
	gate.Open()
	if sc.AfterOpen != nil {
		sc.AfterOpen(r)
	}
	select {
	case <-writersDone:
	case <-time.After(60 * time.Second):
		res.TimedOut = true
	}
	r.extraWG.Wait()
	if uncontrolled {
		r.Model = nil
	}
	if final != nil && !res.TimedOut {
		final(r)
	}
	d.Disarm()
	cerr := make(chan error, 1)
	go func() { cerr <- idx.Close() }()
	select {
	case err := <-cerr:
		if err != nil {
			r.Errors = append(r.Errors, "close: "+err.Error())
		}
	case <-time.After(60 * time.Second):
		res.TimedOut = true
		r.Errors = append(r.Errors, "close did not return within 60s")
	}
	res.Steps, res.Heuristic = r.Steps, r.Heuristic
	res.Schedule, res.IntroOrder, res.Errors = gate.Schedule(), gate.IntroOrder(), r.Errors
	return res, nil
}

// RefOf returns the batch the given writer actor is currently submitting.
func (r *Runner) RefOf(actor string) (BatchRef, bool) {
	r.mu.Lock()
	defer r.mu.Unlock()
	ref, ok := r.current[actor]
	return ref, ok
}

// AckedSet returns a copy of the acknowledged batches.
func (r *Runner) AckedSet() map[BatchRef]bool {
	r.mu.Lock()
	defer r.mu.Unlock()
	out := map[BatchRef]bool{}
	for k, v := range r.Acked {
		out[k] = v
	}
	return out
}

// ReleasedList returns a copy of the release order.
func (r *Runner) ReleasedList() []BatchRef {
	r.mu.Lock()
	defer r.mu.Unlock()
	return append([]BatchRef(nil), r.Released...)
}

// ---------------------------------------------------------------------------
// observation helpers shared by the observers

// Visible reads, through one index reader, every id of the id space and
// returns id → stored fields (canonical strings), the doc count and the
// internal values of the given keys.
type View struct {
	Docs     map[string][]string
	DocCount uint64
	Internal map[string]string
	Epoch    uint64
	Segments int
}

func ReadView(idx bleve.Index, ids []string, keys []string) (*View, error) {
	adv, err := idx.Advanced()
	if err != nil {
		return nil, err
	}
	rd, err := adv.Reader()
	if err != nil {
		return nil, err
	}
	defer rd.Close()
	v := &View{Docs: map[string][]string{}, Internal: map[string]string{}}
	if is, ok := rd.(*scorch.IndexSnapshot); ok {
		v.Epoch, v.Segments = is.VerifEpoch(), is.VerifNumSegments()
	}
	v.DocCount, err = rd.DocCount()
	if err != nil {
		return nil, err
	}
	for _, id := range ids {
		d, err := rd.Document(id)
		if err != nil {
			return nil, fmt.Errorf("Document(%s): %v", id, err)
		}
		if d != nil {
			v.Docs[id] = corpus.ObservedStored(d)
		}
	}
	// enumerate all ids: nothing outside the id space may exist
	dr, err := rd.DocIDReaderAll()
	if err != nil {
		return nil, err
	}
	n := 0
	for {
		iid, err := dr.Next()
		if err != nil {
			dr.Close()
			return nil, err
		}
		if iid == nil {
			break
		}
		ext, err := rd.ExternalID(iid)
		if err != nil {
			dr.Close()
			return nil, err
		}
		n++
		if _, ok := v.Docs[ext]; !ok {
			dr.Close()
			return nil, fmt.Errorf("enumeration yields %q which Document() does not return / is outside the id space", ext)
		}
	}
	dr.Close()
	if n != len(v.Docs) {
		return nil, fmt.Errorf("enumeration yields %d ids, Document() finds %d", n, len(v.Docs))
	}
	for _, k := range keys {
		val, err := rd.GetInternal([]byte(k))
		if err != nil {
			return nil, err
		}
		if val != nil {
			v.Internal[k] = string(val)
		}
	}
	return v, nil
}

// Diff compares a view with a model; "" when equal.
func Diff(v *View, m *corpus.LWW, keys []string) string {
	if int(v.DocCount) != len(m.Docs) {
		return fmt.Sprintf("DocCount=%d model=%d (visible ids %v, model ids %v)", v.DocCount, len(m.Docs), sortedKeys(v.Docs), m.LiveIDs())
	}
	for id, d := range m.Docs {
		want, err := corpus.ExpectedStored(d)
		if err != nil {
			return "harness: " + err.Error()
		}
		got, ok := v.Docs[id]
		if !ok {
			return fmt.Sprintf("live id %s not visible", id)
		}
		if strings.Join(got, "\n") != strings.Join(want, "\n") {
			return fmt.Sprintf("doc %s: got %v want %v", id, got, want)
		}
	}
	for id := range v.Docs {
		if _, ok := m.Docs[id]; !ok {
			return fmt.Sprintf("id %s visible but not live in the model", id)
		}
	}
	for _, k := range keys {
		if v.Internal[k] != m.Internal[k] {
			return fmt.Sprintf("internal %s=%q model %q", k, v.Internal[k], m.Internal[k])
		}
	}
	return ""
}

func sortedKeys(m map[string][]string) []string {
	var out []string
	for k := range m {
		out = append(out, k)
	}
	sort.Strings(out)
	return out
}

func choose(policy string, ws []mon.Waiter, g *rng.Rand) mon.Waiter {
	split := func(prefix string) (in, out []mon.Waiter) {
		for _, w := range ws {
			if strings.HasPrefix(w.Point, prefix) {
				in = append(in, w)
			} else {
				out = append(out, w)
			}
		}
		return
	}
	pickFrom := func(preferred, rest []mon.Waiter) mon.Waiter {
		if len(preferred) > 0 {
			return preferred[g.Intn(len(preferred))]
		}
		return rest[g.Intn(len(rest))]
	}
	switch policy {
	case "starve-merger":
		in, out := split("merge.")
		return pickFrom(out, in)
	case "starve-persister":
		in, out := split("persist.")
		return pickFrom(out, in)
	case "starve-purger":
		in, out := split("purge.")
		return pickFrom(out, in)
	case "starve-copier":
		in, out := split("copy.")
		return pickFrom(out, in)
	case "writers-first":
		in, out := split("batch.")
		return pickFrom(in, out)
	case "writers-last":
		in, out := split("batch.")
		return pickFrom(out, in)
	}
	return ws[g.Intn(len(ws))]
}

// Policies lists the scheduling policies, for rotation over scenarios.
var Policies = []string{"", "starve-merger", "starve-copier", "starve-persister", "writers-first", "starve-purger", "", "writers-last", "starve-copier"}
