#!/usr/bin/env python3
"""Regenerates MANIFEST.json from the table below. A property is claimed only when
harness/<cxx>/READY exists (its monitor is built and accepted); otherwise it is listed under not_applicable
with the reason 'monitor not built yet'."""
import json, os, subprocess
here = os.path.dirname(os.path.abspath(__file__))

P = {
 "C01": ("exploration", "differential monitor: seeded histories replayed on every engine/store/partition vs last-write-wins reference model",
         "Random histories (update/delete/re-create/multi-op batches/internal keys) are applied to scorch disk/mem, upsidedown over every KV store and under several batch partitions; every observation (DocCount, Document, match-all, doc-id search, GetInternal) is compared with an independent LWW map. Assurance = held on the explored histories × configurations.",
         "Trusted: the harness' LWW model and mapping.MapDocument for expected stored fields. Not covered: vector/synonym fields."),
 "C02": ("exploration", "differential monitor: random query trees vs independent evaluator over analysed live documents, option grid and both engines",
         "Query trees from the full family are run on multi-segment corpora with deletes under score on/none × locations × explain on scorch and upsidedown and compared with a small set-semantics evaluator; mismatches are shrunk and classified.",
         "Trusted: analyzers (shared with the implementation), the evaluator's semantics table in DESIGN §4.2; fuzzy transposition band is don't-care."),
 "C03": ("fault_enumeration", "crash injection: SIGKILL at every instrumented hook occurrence + seeded instants, adversarial unreferenced files, reopen and compare with LWW prefix",
         "A child process indexes tagged batches; it is killed at each verif hook point (every occurrence up to a bound) and at seeded instants; unreferenced .zap files are truncated/garbled; the parent reopens and requires a batch-prefix state ≥ acknowledged, then writes more.",
         "Process death only (no power-loss reordering, no torn bbolt pages). Journal is a lower bound on acknowledgements."),
 "C04": ("exploration", "history monitor: recorded concurrent Batch/read histories checked for atomicity, recency, monotonicity, reader stability and (porcupine) linearizability; gate scheduler over introducer orders; race detector",
         "Writers with per-writer version markers, readers and held readers run against live persister/merger with seeded delays at hooks and a gate scheduler choosing introducer-level orders; every read is decoded to a per-writer version vector and checked.",
         "Schedules explored are those the seeded perturbation and the gate scheduler produce; porcupine timeouts are inconclusive."),
 "C05": ("exploration", "metamorphic monitor: same logical content in many physical layouts must answer every request identically (bit-equal scores)",
         "One history is materialised as several layouts (batch partitions, mem/disk, persister workers, merge plans, force-merge, reopen, segment versions) and a request family (queries × sorts × facets × highlight) is compared field by field.",
         "tf-idf only; natural-order ties compared as groups."),
 "C06": ("exploration", "reference-model monitor: TopN collector fed arbitrary match streams vs full sort; end-to-end paging/SearchAfter/SearchBefore tiling",
         "Stub searchers feed the real TopNCollector heavy-tie streams across the slice/heap switch and prealloc cap; results compared with sort-then-slice; end-to-end pages and search-after/before chains must tile the full ordering.",
         "Default-mode sort on multi-valued fields excluded (engine dependent first value)."),
 "C07": ("exploration", "boundary-value monitor: encoding order/round-trip on boundary floats, interval-arithmetic coverage oracle over the real range splitter, end-to-end range queries and sorts on both engines",
         "All ordered pairs of a boundary set (ulp neighbours, precision-step boundaries, subnormals, infinities) for order/round-trip; for every (min,max,incl) the terms enumerated by the real splitter are converted to int64 intervals and must cover exactly [min,max]; end-to-end range queries and sorts are compared with float comparison; dates at ns resolution.",
         "NaN and -0 excluded as the property states."),
 "C08": ("exploration", "cursor-oracle monitor: seeded Next/Advance programs on every searcher kind vs the Next-only enumeration",
         "For each index × query tree the Next-only list is the reference; random programs of Next and forward Advance (targets at/before/after matches, segment boundaries, beyond end, first call) must follow the cursor oracle; multi-segment indexes with deletions, both engines, scored and unscored (optimised) paths.",
         "Backward/repeated targets are outside the contract and never generated."),
 "C09": ("exploration", "differential monitor: alias over random shard partitions vs single index, every page and search-after/before chain, facets",
         "Random partitions (incl. empty/skewed shards, nested aliases) are compared with the unsharded index for every From/Size page, SearchAfter/Before chains, stored fields and facets under score-independent total sorts.",
         "Score-dependent sorts and facet sizes below the bucket count are outside the statement."),
 "C10": ("exploration", "reference-model monitor: facet results vs independent counting over all matches; invariance under Size/From/sort",
         "Terms/numeric/date facets on corpora with multi-valued and missing fields are compared with a counting model over all matching documents, under several page settings and both doc-value paths.",
         "Trusted: analyzers; date facet bounds parsed by the same date parser."),
 "C11": ("exploration", "stress under the Go race detector + API monitors: concurrent public API with Close/cancel at seeded moments, closed-index error check, goroutine-leak check, async-error monitor",
         "Child processes built with -race run rounds of concurrent Index/Delete/Batch/Search/Document/FieldDict/Stats/ForceMerge/CopyTo/Close with seeded delays at hooks; monitors: race reports, panics, async panics, deadlock signature, closed-index errors after Close, cancellation promptness in matches handled, leaked bleve goroutines.",
         "The race detector only sees races that manifest; schedules are those produced by seeded perturbation."),
 "C12": ("exploration", "file-set monitor: frozen images at quiescent gate states and SIGSTOP samples must reopen to an acknowledged state; assertions at purge hooks; orphan/fd checks at quiescence",
         "During C04-style workloads with copies and held readers the directory is imaged at gate-scheduler quiescent points and reopened; at purge.zap.beforeRemove the file must not be named by any bucket/ineligible/copy-scheduled/root; after settle no orphan .zap, no growth with history length, no fd after Close.",
         "Reader-held files are judged by accessibility (POSIX unlink semantics), see DESIGN §5 C12."),
 "C13": ("exploration", "differential monitor: every offered rollback point is rolled back on a copy and compared with the LWW state of its seq tag",
         "Histories with a seq internal key per batch under several retention settings; each listed point is rolled back to on a copy, reopened, compared with model.LWW(seq), written to again.",
         "rollbackSamplingInterval>0 gets weaker checks (time based)."),
 "C14": ("exploration", "history monitor: CopyTo at gates/seeded moments during writes, merges and purges; destination must equal an LWW prefix within [acked-before, submitted-at-end]",
         "Copies start at seeded moments and at persister/merger/purger gates, several concurrently; every destination is opened and compared; the source is compared with the full model at the end.",
         "Same schedule caveat as C04."),
 "C15": ("exploration", "reference-model monitor: seeded KV op sequences with held readers and seeking iterators on every store vs ordered-map model; concurrent readers under the race detector",
         "Per store (boltdb, goleveldb, gtreap, moss, moss+lower, metrics∘each) random batches of set/delete/merge, snapshot readers kept across writes, prefix/range iterators with forward Seek, compared with an ordered map with atomic batches.",
         "Same key never written twice inside one batch (order undefined by the contract)."),
 "C16": ("exploration", "round-trip monitor: random mapping trees through JSON; MapDocument outputs compared field by field incl. analysed tokens",
         "Random mapping trees with custom analysis are marshalled, parsed, validated, re-marshalled (fix-point) and both mappings map the same documents; also via a real index Close/Open.",
         "Generated option space as listed in DESIGN §5 C16."),
 "C17": ("exploration", "round-trip/differential monitor: query and request JSON round trips executed on probe corpora; query-string fuzzing (parse + execute) and grammar-generated strings vs constructed queries",
         "Random query trees and requests are serialised, parsed back and executed on probe indexes (ids and scores equal); arbitrary bytes and token soups go through the query-string parser and executor (no panic/hang); grammar-generated strings are compared with the directly constructed query.",
         "±Inf bounds excluded (JSON cannot carry them)."),
 "C18": ("exploration", "reference-model monitor: geo queries vs float64 geometry with a don't-care band; boundary-cell points, date line, poles, multi-valued fields, with/without s2",
         "Point sets incl. cell-boundary, ±180/±90 and shape-edge clusters; distance/box/polygon queries on scorch, scorch+s2 and upsidedown compared with great-circle/box/polygon geometry, band = encoding resolution + tolerance; distance sort order checked.",
         "Points inside the tolerance band are don't-care."),
 "C19": ("exploration", "robustness monitor: every registered analysis component on hostile byte strings with token-offset invariants; highlight fragments checked against the stored value",
         "All registered analyzers/tokenizers/filters/char filters (and configured variants) run on valid/invalid UTF-8, long tokens, mixed scripts; tokenizer offset/position invariants; highlighter fragments (html/ansi, fragment sizes) must be substrings with marked spans at reported locations; fragmenter/formatter called with arbitrary locations.",
         "Non-termination = still running after 120 s (only wall-clock criterion)."),
 "C20": ("exploration", "reference-model monitor: nested documents as trees; random conj/disj/boolean queries over nested and top-level fields vs declarative tree model; update/delete histories",
         "Nested mappings (one array, siblings, two levels), documents with empty/1..4 elements, queries over nested and top-level fields compared with a tree model; counts in parents; updates/deletes over several segments; un-nested control.",
         "Known finding classes for non-nesting-aware boolean/disjunction, see known_findings.json."),
}

def built(pid):
    return os.path.isfile(os.path.join(here, "harness", pid.lower(), "READY"))

env = "cd /verif && "
checks, na = [], []
for pid in sorted(P):
    level, tech, text, note = P[pid]
    if not built(pid):
        na.append({"property_id": pid, "reason": "monitor not built yet (planned, see DESIGN.md §5 %s)" % pid})
        continue
    checks.append({
        "property_id": pid,
        "quick_cmd": "./check %s quick" % pid,
        "thorough_cmd": "./check %s thorough" % pid,
        "evidence_file": "/verif/evidence/%s.json" % pid,
        "replay_cmd_template": "./check %s quick --replay {path}" % pid,
        "engine": "vcheck",
        "level_claimed": {"category": level, "text": text, "design_ref": "DESIGN.md §5 %s" % pid},
        "level_note": note,
        "technique": tech,
    })

hook_commits = subprocess.run(["git", "-C", "/repo", "log", "--format=%H %s"], capture_output=True, text=True).stdout.splitlines()
hooks = [l.split()[0] for l in hook_commits if "verif" in l.lower() and not l.split(" ", 1)[1].startswith("fix:")]

m = {
 "version": 1,
 "setup_cmd": "./setup.sh",
 "hooks": {
   "guard": "verif",
   "enable": "go build -tags verif (the harness module replaces github.com/blevesearch/bleve/v2 with /repo, so every ./check rebuilds /repo's working tree with hooks on)",
   "baseline_off_cmd": "cd /repo && GOFLAGS=-mod=mod GOPROXY=off go test -vet=off -count=1 -timeout 25m ./...",
   "source_commits": hooks,
   "add_only": True,
 },
 "engines": [{"name": "vcheck", "path": "/verif/harness", "serves_properties": [c["property_id"] for c in checks],
              "kind_free_text": "Go runtime-monitoring harness: seeded workloads, reference-model oracles, hook dispatcher (delay/crash/gate), race detector, porcupine"}],
 "checks": checks,
 "not_applicable": na,
 "notes": "All checks are runtime monitors over executions of the real code (see DESIGN.md). VERIF_SEED / VERIF_TIER are honoured.",
}
json.dump(m, open(os.path.join(here, "MANIFEST.json"), "w"), indent=1)
print("claimed:", [c["property_id"] for c in checks])
