#!/bin/bash
# usage: selftest/oncopy.sh <dir-with-a-copy-of-/repo> <Cxx> quick|thorough
# Runs a property monitor against a *copy* of the repository (a mutant, a candidate fix) without
# touching /repo or /verif/evidence: the harness is built with a temporary -modfile whose replace
# directive points at the copy, and evidence/replay go to a scratch VERIF_ROOT that is printed and
# left for inspection under <copy>/.verif-out (delete it with the copy).
set -u
here="$(cd "$(dirname "$0")/.." && pwd)"
copy="$(cd "${1:?copy dir}" && pwd)"; prop="${2:?property}"; tier="${3:-quick}"
export GOFLAGS=-mod=mod GOPROXY=off
unset GOTOOLCHAIN GOSUMDB
out="$copy/.verif-out"; mkdir -p "$out/evidence" "$out/bin"
cp "$here/known_findings.json" "$out/known_findings.json"
sed "s#=> /repo#=> $copy#" "$here/harness/go.mod" > "$out/alt.mod"
cp "$here/harness/go.sum" "$out/alt.sum"
pkg="$(echo "$prop" | tr 'A-Z' 'a-z')"
( cd "$here/harness" && go build -modfile="$out/alt.mod" -tags verif -o "$out/bin/vcheck-$pkg" "./$pkg/cmd" ) || { echo "BUILD-FAILED"; exit 2; }
export VCHECK_PLAIN="$out/bin/vcheck-$pkg" VCHECK_RACE=""
if [ -f "$here/harness/$pkg/RACE" ] && [ "${VERIF_NORACE:-}" != 1 ]; then
  ( cd "$here/harness" && go build -modfile="$out/alt.mod" -tags verif -race -o "$out/bin/vcheck-$pkg-race" "./$pkg/cmd" ) || { echo "BUILD-FAILED"; exit 2; }
  export VCHECK_RACE="$out/bin/vcheck-$pkg-race"
fi
export VERIF_ROOT="$out" VERIF_TIER="$tier" VERIF_SEED="${VERIF_SEED:-1}"
"$out/bin/vcheck-$pkg" "$prop"
rc=$?
echo "oncopy: exit=$rc evidence under $out"
exit $rc
