#!/bin/bash
# usage: selftest/run.sh [pattern]     e.g. selftest/run.sh C04   or   selftest/run.sh C12-purger
# Mutation self-test of the monitors: for every selftest/mutants/<Cxx>-<name>.patch matching the pattern a scratch
# copy of /repo is made (outside /repo and /verif), the patch applied, the property's quick check run against the
# copy (selftest/oncopy.sh) and the copy deleted. A mutant is "caught" when the check exits 1 with a VIOLATION line.
# Results are appended to selftest/results.tsv (property, mutant, verdict, seconds, first violation class).
set -u
here="$(cd "$(dirname "$0")/.." && pwd)"
pat="${1:-}"
base="${VERIF_TMP:-/dev/shm}"; [ -d "$base" ] || base=/tmp
rc=0
for patch in "$here"/selftest/mutants/*"$pat"*.patch; do
  [ -f "$patch" ] || continue
  name="$(basename "$patch" .patch)"; prop="${name%%-*}"
  work="$base/selftest-$$-$name"; rm -rf "$work"; mkdir -p "$work"
  cp -r /repo "$work/bleve"; rm -rf "$work/bleve/.git"
  if ! ( cd "$work/bleve" && patch -p1 -s < "$patch" ); then
    echo -e "$prop\t$name\tPATCH-DOES-NOT-APPLY\t0\t" | tee -a "$here/selftest/results.tsv"; rm -rf "$work"; rc=1; continue
  fi
  t0=$(date +%s)
  out="$(VERIF_SEED="${VERIF_SEED:-1}" "$here/selftest/oncopy.sh" "$work/bleve" "$prop" quick 2>&1)"; code=$?
  t1=$(date +%s)
  cls="$(echo "$out" | grep -m1 '^  class=' | cut -c1-160)"
  if echo "$out" | grep -q '^BUILD-FAILED'; then verdict=BUILD-FAILED
  elif [ $code -eq 1 ] && echo "$out" | grep -q '^VIOLATION property='; then verdict=caught
  elif [ $code -eq 0 ]; then verdict=MISSED; rc=1
  else verdict="broken-run($code)"; rc=1; fi
  echo -e "$prop\t$name\t$verdict\t$((t1-t0))\t$cls" | tee -a "$here/selftest/results.tsv"
  rm -rf "$work"
done
exit $rc
