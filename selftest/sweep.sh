#!/bin/bash
# usage: selftest/sweep.sh "<seeds>" [pattern]  — runs every quick check at each seed, sequentially; one line per run
# in .sweep/sweep.tsv (property, seed, exit, seconds, summary line). Seed 1 should come last so the committed evidence is seed 1.
here="$(cd "$(dirname "$0")/.." && pwd)"
mkdir -p "$here/.sweep"
for seed in $1; do
  for p in C01 C02 C03 C04 C05 C06 C07 C08 C09 C10 C11 C12 C13 C14 C15 C16 C17 C18 C19 C20; do
    case "$p" in *${2:-}*) ;; *) continue;; esac
    t0=$(date +%s)
    VERIF_SEED=$seed "$here/check" $p quick > "$here/.sweep/$p-s$seed.log" 2>&1; rc=$?
    t1=$(date +%s)
    printf '%s\t%s\t%s\t%s\t%s\n' $p $seed $rc $((t1-t0)) "$(grep -E 'VIOLATION|KNOWN-FINDING|tier=' "$here/.sweep/$p-s$seed.log" | tr '\n' '|' | cut -c1-300)" >> "$here/.sweep/sweep.tsv"
  done
done
