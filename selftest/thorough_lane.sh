#!/bin/bash
# usage: selftest/thorough_lane.sh <out.tsv> <per-check-timeout-s> Cxx Cyy …   — runs thorough checks one after the other
here="$(cd "$(dirname "$0")/.." && pwd)"
out="$1"; to="$2"; shift 2
mkdir -p "$(dirname "$out")"
for p in "$@"; do
  t0=$(date +%s)
  timeout -s KILL "$to" "$here/check" $p thorough > "$out.$p.log" 2>&1; rc=$?
  t1=$(date +%s)
  printf '%s\t%s\t%s\t%s\n' $p $rc $((t1-t0)) "$(grep -E 'VIOLATION|KNOWN-FINDING|tier=|INCONCLUSIVE' "$out.$p.log" | tr '\n' '|' | cut -c1-400)" >> "$out"
done
