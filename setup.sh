#!/bin/bash
# Offline setup after a fresh restore: warm the Go build cache by building every monitor once.
set -u
here="$(cd "$(dirname "$0")" && pwd)"
export GOFLAGS=-mod=mod GOPROXY=off
unset GOTOOLCHAIN GOSUMDB
mkdir -p "$here/.bin" "$here/evidence/replay" "$here/evidence/logs"
cd "$here/harness" || exit 1
rc=0
for d in c[0-9][0-9]; do
  [ -d "$d/cmd" ] || continue
  go build -tags verif -o "$here/.bin/vcheck-$d" "./$d/cmd" || rc=1
  if [ -f "$d/RACE" ]; then go build -tags verif -race -o "$here/.bin/vcheck-$d-race" "./$d/cmd" || rc=1; fi
done
exit $rc
